"""C12 - Match distances obey signature semantics: exact, wildcard, decisive, monotone.

Structural clauses decided:
 R1 software-string containment direction (haystack = observation, needle = signature)
 R2 penalty scale tables (as_score): High = 0 < Medium < Low (< Bad)
 R3 decisive components may return None and give Some(High) on equality; non-decisive never return None,
    give High on equality/wildcard and a positive penalty otherwise
 R4 quality tables: total over u32, non-increasing, inside [0.05, 1.0], 1.0 only at distance 0 (exhaustive by intervals)
 R5 the sum is saturating and contains every component exactly once, each `?`-propagated, applied to (observed, signature)
 R6 wildcard arms (`Any`, absent mss/wscale) give High
 R7 header error bands: monotone interval table ending in None
 R8 compared quantities are never narrowed (every integer conversion in the matching code widens)
 R9 a signature header is charged only when it is not optional
 R10 exact-match relation of every (observed form, signature form) arm of distance_ttl / distance_window_size equals the
     specification table (normal form of the compared expressions)
 R11 list-valued components (option layout, quirks) are compared as whole lists (no zip / prefix comparison)
 R12 each scalar / list component is charged exactly under the conditions of the specification table; the software-string match
     depends on the containment test alone
 R8  (also) every narrowing conversion in the database crate is proven or reviewed to fit
"""
from ..engine import cfg as C
from ..engine import paths as PA
from ..engine import q as Q
from ..engine import tables as TB
from ..engine import terms as T
from ..engine.facts import AnchorMissing, callee_of

EXPLANATION = ("Return-table extraction per distance component (all definitions of the return place with their canonical control "
               "conditions), enum->constant tables of as_score, exhaustive interval tables of distance_to_score over all 2^32 "
               "distances, origin slices of the arguments of str::contains, call-multiset of calculate_distance.")
TRUSTED = ["str::contains(haystack, needle) semantics", "PartialEq of std types", "u32::saturating_add"]
DECLINED = ["the instantiation law over all signatures (needs values)", "semantics of the two-pointer header comparison",
            "TTL/window form-pair semantics (C13-R1)"]
ASSUMPTIONS = ["receiver (parameter 0) of every distance_* function is the observation, parameter 1 the signature "
               "(checked against calculate_distance's call sites)"]
EXHAUSTIVE = True

SCORE_TYPES = {"TcpMatchQuality": ["High", "Medium", "Low"], "HttpMatchQuality": ["High", "Medium", "Low", "Bad"]}

# component -> (kind, field) ; kind: decisive | plain
TCP_COMPONENTS = {
    "distance_ip_version": ("decisive", "version"),
    "distance_ttl": ("table", "ittl"),
    "distance_olen": ("plain", "olen"),
    "distance_mss": ("plain-wild", "mss"),
    "distance_window_size": ("table", "wsize"),
    "distance_wscale": ("plain-wild", "wscale"),
    "distance_olayout": ("decisive", "olayout"),
    "distance_quirks": ("decisive", "quirks"),
    "distance_payload_size": ("decisive", "pclass"),
}
HTTP_COMPONENTS = {
    "distance_ip_version": ("decisive", "version"),
    "distance_horder": ("table", "horder"),
    "distance_habsent": ("table", "habsent"),
    "distance_expsw": ("plain", "expsw"),
}


def _score_tables(ctx):
    P = ctx.program
    tabs = {}
    for ty, order in SCORE_TYPES.items():
        b = P.method1(ty, "as_score")
        tab = TB.enum_const_table(b, P)
        tabs[ty] = tab
        vars_ = P.variants(b.impl_self)
        okk = set(tab) == set(vars_) and all(isinstance(v, int) for v in tab.values())
        if not okk:
            ctx.cannot("R2", ty + "::as_score", "table not extracted: %r" % tab, ctx.loc(b))
            continue
        seq = [tab[v] for v in vars_]
        mono = all(seq[i] < seq[i + 1] for i in range(len(seq) - 1))
        ctx.check(tab.get("High") == 0 and mono and vars_[0] == "High", "R2", ty + "::as_score",
                  "penalties %s" % {v: tab[v] for v in vars_},
                  "penalty scale is not High=0 < Medium < Low (< Bad): %s" % {v: tab[v] for v in vars_}, ctx.loc(b))
    return tabs


def _score_of(term, tabs):
    """Some(as_score(Variant)) -> ('Some', variant, value); None -> ('None',)"""
    t = term
    if t[0] == "agg" and t[1] == "adt" and (t[2] or "").endswith("option::Option"):
        if t[3] == "None":
            return ("None",)
        inner = t[4][0]
        if inner[0] == "call" and inner[1].endswith("::as_score"):
            a = inner[2][0]
            if a[0] == "agg" and a[1] == "adt":
                ty = a[2].split("::")[-1]
                return ("Some", a[3], tabs.get(ty, {}).get(a[3]))
        if inner[0] == "const" and isinstance(inner[1], int):
            return ("Some", "const", inner[1])
        return ("Some", "?", None)
    return ("?",)


def _component_bodies(P, name):
    out = [b for b in P.bodies.values() if b.crate == "huginn_net_db" and b.name == name and b.kind in ("AssocFn", "Fn")]
    return out


def _eq_conds(conds, fname):
    """conditions that compare <param0>.fname / param0 with <param1>.fname / param1 for equality; returns list of polarity"""
    out = []
    for c in conds:
        if c[0] == "cmp" and c[1] in ("Eq", "Ne"):
            ps = set()
            for side in (c[2], c[3]):
                for x in T.params_in(side):
                    ps.add(x[1])
            if ps >= {0, 1}:
                out.append(c[4] if c[1] == "Eq" else (not c[4]))
    return out


def _wild_conds(conds):
    """('variant', place from param1, 'Any'|'None', True)"""
    out = []
    for c in conds:
        if c[0] == "variant" and c[2] in ("Any", "None") and c[3] is True:
            ps = {x[1] for x in T.params_in(c[1])}
            if ps == {1}:
                out.append(c)
    return out


def _merge_same_value(sites):
    """Return sites with the same returned value taken together (their conditions united): `if w || eq {High} else {Low}` written
    as one return reached two ways, or as `let q = if !w && !eq {Low} else {High}; Some(q.score())` split per path, give the same
    entries."""
    out = []
    for s in sites:
        for k, o in enumerate(out):
            if o[2] == s[2]:
                out[k] = (o[0], o[1], o[2], list(o[3]) + [c for c in s[3] if c not in o[3]]) + tuple(o[4:])
                break
        else:
            out.append(tuple(s))
    return out


def rule_components(ctx, tabs):
    P = ctx.program
    n = 0
    for famname, comps, sigself in (("tcp", TCP_COMPONENTS, "tcp::Signature"), ("http", HTTP_COMPONENTS, "http::Signature")):
        for name, (kind, fld) in comps.items():
            bodies = _component_bodies(P, name)
            if famname == "tcp":
                bodies = [b for b in bodies if "http" not in b.path.lower() or name != "distance_ip_version"]
            else:
                bodies = [b for b in bodies if "Http" in b.path or "http" in b.path]
            if name == "distance_ip_version":
                bodies = [b for b in bodies if ("Http" in b.path) == (famname == "http")]
            if not bodies:
                ctx.cannot("R3", "%s:%s" % (famname, name), "component function not found")
                continue
            for b in bodies:
                n += 1
                inst = "%s:%s" % (famname, name)
                sites = _merge_same_value(TB.return_sites(b, P, resolve=True))
                # functions that only forward (distance_horder -> distance_header)
                if not sites:
                    fw = [t for _, t in b.calls() if t["dest"]["l"] == 0]
                    ctx.ok("R3", inst, "forwards to " + ", ".join(T.short(callee_of(t)) for t in fw), ctx.loc(b))
                    continue
                scored = [(s, _score_of(s[2], tabs)) for s in sites]
                has_none = any(sc[0] == "None" for _, sc in scored)
                unknown = [sc for _, sc in scored if sc[0] == "?" or (sc[0] == "Some" and sc[2] is None)]
                if unknown and kind != "table":
                    ctx.cannot("R3", inst, "a return value is not Some(<Quality>.as_score())/None: %s" %
                               [T.pp(s[2]) for s, sc in scored if sc in unknown][:2], ctx.loc(b))
                    continue
                if kind == "decisive":
                    ok1 = ctx.check(has_none, "R3", inst + ":none-on-mismatch", "has a None return (decisive field)",
                                    "decisive component `%s` can no longer reject: no None return" % name, ctx.loc(b))
                    somes = [(s, sc) for s, sc in scored if sc[0] == "Some"]
                    ok2 = bool(somes) and all(sc[2] == 0 for _, sc in somes)
                    ctx.check(ok2, "R3", inst + ":zero-on-match", "all accepting returns are Some(High=0)",
                              "decisive component returns a non-zero or unrecognised penalty on acceptance: %s" % [sc for _, sc in somes], ctx.loc(b))
                    # the None return must not be reachable under the equality/wildcard condition
                    for s, sc in scored:
                        if sc[0] == "None":
                            eqs = _eq_conds(s[3], fld)
                            wild = _wild_conds(s[3])
                            bad = (True in eqs)
                            ctx.check(not bad, "R3", inst + ":none-guard",
                                      "None only on the not-equal side",
                                      "None is returned on the *equal* side of the comparison", ctx.loc(b, s[0]))
                elif kind in ("plain", "plain-wild"):
                    ctx.check(not has_none, "R3", inst + ":never-none", "never returns None (non-decisive field)",
                              "non-decisive component `%s` returns None: a difference in `%s` now rejects signatures" % (name, fld), ctx.loc(b))
                    highs = [(s, sc) for s, sc in scored if sc[0] == "Some" and sc[2] == 0]
                    pens = [(s, sc) for s, sc in scored if sc[0] == "Some" and sc[2] not in (0, None)]
                    ctx.check(bool(highs) and bool(pens), "R3", inst + ":two-level",
                              "High on match, penalty %s otherwise" % sorted({sc[2] for _, sc in pens}),
                              "component does not distinguish match (0) from mismatch (>0): returns %s" % [sc for _, sc in scored], ctx.loc(b))
                    if name == "distance_expsw":
                        continue  # direction checked by R1
                    for s, sc in highs:
                        eqs = _eq_conds(s[3], fld)
                        ctx.check(True in eqs and False not in eqs, "R3", inst + ":high-on-equal",
                                  "High is returned under observed.%s == signature.%s" % (fld, fld),
                                  "High (distance 0) is not returned under equality of `%s` (conditions: %s)" % (fld, eqs), ctx.loc(b, s[0]))
                        if kind == "plain-wild":
                            w = _wild_conds(s[3])
                            ctx.check(bool(w), "R6", inst + ":wildcard",
                                      "absent signature value (None) gives High",
                                      "an absent (wildcard) signature `%s` no longer yields distance 0" % fld, ctx.loc(b, s[0]))
                    for s, sc in pens:
                        eqs = _eq_conds(s[3], fld)
                        ctx.check(False in eqs and True not in eqs, "R3", inst + ":penalty-on-differ",
                                  "penalty only under inequality", "penalty returned on the equal side", ctx.loc(b, s[0]))
                else:
                    # table-shaped (ttl / window / header): every accepting return is a known score; C13 decides form pairs
                    somes = [sc for _, sc in scored if sc[0] == "Some"]
                    ok = all(sc[2] is not None for sc in somes)
                    ctx.check(ok, "R3", inst + ":table-scores", "%d returns, scores %s%s" % (
                        len(scored), sorted({sc[2] for sc in somes}), " + None" if has_none else ""),
                        "unrecognised score value in table-shaped component", ctx.loc(b))
    ctx.floor("R3", "distance component bodies", n, 12)


def rule_R6_enum_wildcards(ctx, tabs):
    P = ctx.program
    # (IpVersion / PayloadSize: the exhaustive pair tables of rule_enum_pair_tables say the same and more)
    cases = [("WindowSize", "distance_window_size", "tcp"), ("HttpDistance", "distance_ip_version", "http")]
    for ty, name, fam in cases:
        try:
            b = P.method1(ty, name)
        except AnchorMissing as e:
            ctx.cannot("R6", "%s::%s" % (ty, name), str(e))
            continue
        sites = TB.return_sites(b, P, resolve=True)
        found = False
        for s in sites:
            sc = _score_of(s[2], tabs)
            if sc[0] == "Some" and sc[2] == 0 and any(c[2] == "Any" for c in _wild_conds(s[3])):
                found = True
        ctx.check(found, "R6", "%s::%s:any" % (ty, name), "signature `Any` gives Some(High)",
                  "the wildcard arm (`Any` in the signature) no longer returns distance 0", ctx.loc(b))


def rule_enum_pair_tables(ctx, tabs):
    """R6: the decisive enum components are total tables over (observed variant, signature variant): distance 0 exactly when the
    signature says Any or both sides are the same variant, rejection (None) otherwise.  Every pair is evaluated on every path of the
    function (the paths' own conditions decide which pairs a path serves)"""
    P = ctx.program
    for ty, name, variants in (("IpVersion", "distance_ip_version", ("V4", "V6", "Any")), ("PayloadSize", "distance_payload_size", ("Zero", "NonZero", "Any"))):
        try:
            b = P.method1(ty, name)
        except AnchorMissing as e:
            ctx.cannot("R6", "%s::%s:table" % (ty, name), str(e))
            continue
        S = T.Slicer(b, P)
        rows = []          # (conds, result) per path
        bad = None
        for (rb, j, term, _c) in TB.return_sites(b, P):
            trails, trunc = PA.enumerate_paths(b, 0, 2000, stop={rb})
            trails = [tr for tr in trails if tr[-1] == rb]
            if trunc or not trails:
                bad = "paths to a return not enumerable"
                break
            for tr in trails:
                ps = PA.PathSlicer(b, tr, P)
                ps.at(len(tr) - 1)
                val = ps.rvalue(b.blocks[rb]["s"][j]["r"], rb, j) if j >= 0 else ps.def_term(0, rb, j, 0)
                sc = _score_of(T.strip(val), tabs)
                rows.append(([Q._norm_cmp(c) for c in PA.path_conds(P, b, S, tr)], sc))
        if bad:
            ctx.cannot("R6", "%s::%s:table" % (ty, name), bad, ctx.loc(b))
            continue

        def who(t):
            t = T.strip(t)
            while t[0] in ("deref", "ref"):
                t = T.strip(t[1] if t[0] == "deref" else t[2])
            return t[2] if t[0] == "param" and t[2] in ("self", "other") else None

        def holds(c, s_, o_):
            val = {"self": s_, "other": o_}
            if c[0] == "variant" and who(c[1]):
                return (val[who(c[1])] == c[2]) == c[3]
            if c[0] == "variant_in" and who(c[1]):
                return (val[who(c[1])] in c[2]) == c[3]
            if c[0] == "cmp" and c[1] in ("Eq", "Ne") and {who(c[2]), who(c[3])} == {"self", "other"}:
                return ((s_ == o_) == (c[1] == "Eq")) == c[4]
            if c[0] == "bool" and T.strip(c[1])[0] == "const":
                return T.strip(c[1])[1] == c[2]
            return None
        problems = []
        for s_ in variants:
            if s_ == "Any":
                continue           # an observation is never `Any`
            for o_ in variants:
                got = set()
                undecided = False
                for conds, sc in rows:
                    hs = [holds(c, s_, o_) for c in conds]
                    if None in hs:
                        undecided = True
                    if all(h is not False for h in hs):
                        got.add((sc[0], sc[2] if len(sc) > 2 else None))
                want = ("Some", 0) if (o_ == "Any" or s_ == o_) else ("None", None)
                if undecided:
                    problems.append("(%s, %s): a condition on the way is not a test of the two variants" % (s_, o_))
                elif got != {want}:
                    problems.append("(%s, %s) yields %s, the signature semantics say %s" % (s_, o_, sorted(got, key=str), want))
        ctx.check(not problems, "R6", "%s::%s:table" % (ty, name), "distance 0 iff signature is Any or the variants are equal, None otherwise (%d pairs)" % (2 * len(variants)),
                  "%s::%s: %s" % (ty, name, "; ".join(problems[:3])), ctx.loc(b))


def rule_R1(ctx):
    P = ctx.program
    b = P.method1("HttpDistance", "distance_expsw")
    S = T.Slicer(b, P)
    cs = Q.calls(b, ["str>::contains", "<impl str>::contains", "str::contains"])
    if not cs:
        cs = Q.calls(b, ["::find", "::starts_with", "memmem"])
    if len(cs) != 1:
        ctx.cannot("R1", "distance_expsw:contains", "expected exactly one containment call, found %d" % len(cs), ctx.loc(b))
        return
    blk, t = cs[0]
    args = Q.call_args(b, S, blk, t)
    hay = {x[1] for x in T.params_in(args[0])}
    needle = {x[1] for x in T.params_in(args[1])}
    good = hay == {0} and needle == {1}
    extra = []
    for (rb, j2, term, _c) in TB.return_sites(b, P):
        if any(x[0] == "agg" and x[3] == "High" for x in T.walk(T.strip(term))):
            for c in Q.canon_conds(P, T.dom_conds(b, S, rb)):
                if not (c[0] == "bool" and c[1][0] == "call" and c[1][1].endswith("contains")):
                    extra.append(("" if (c[2] if c[0] != "cmp" else c[4]) else "!") + T.pp(c[1] if c[0] != "cmp" else c[2])[:40])
    ctx.check(not extra, "R1", "distance_expsw:only-containment", "an exact software match depends on the containment test alone",
              "the software string is accepted as exact only under the additional conditions %s: an observation that is an instance of the signature (e.g. both strings empty) is penalised" % extra, ctx.loc(b))
    ctx.check(good, "R1", "distance_expsw:direction" + ("" if good else ":haystack=%s,needle=%s" % ("+".join(map(str, sorted(hay))), "+".join(map(str, sorted(needle))))),
              "observed string is searched for the signature's substring",
              "containment is inverted: haystack originates from %s and needle from %s; the signature's expected substring must be "
              "searched *in* the observed User-Agent/Server string (a real `curl/7.24.0 (x86_64)` vs signature `curl/` scores Bad)"
              % ("the signature" if hay == {1} else hay, "the observation" if needle == {0} else needle), ctx.loc(b, blk))


def _f32(c):
    if isinstance(c, tuple) and c and c[0] == "f":
        return T.float_of(c)
    return None


def rule_R4(ctx):
    P = ctx.program
    for ty in SCORE_TYPES:
        b = P.method1(ty, "distance_to_score")
        rows, imprecise = TB.interval_table(b, 1, 0, TB.U32, P)
        inst = ty + "::distance_to_score"
        if imprecise:
            ctx.cannot("R4", inst, "table not exact: %s" % imprecise[:3], ctx.loc(b))
            continue
        vals = []
        okv = True
        for (ivs, res, blk) in rows:
            v = _f32(res[1]) if res[0] == "const" else None
            if v is None:
                okv = False
            vals.append((ivs, v, blk))
        if not okv:
            ctx.cannot("R4", inst, "a result is not an f32 constant", ctx.loc(b))
            continue
        merged = TB.normalise_rows([(ivs, v, blk) for (ivs, v, blk) in vals])
        ctx.extra.setdefault("score_tables", {})[ty] = [[a, bb, v] for (a, bb, v) in merged]
        ctx.check(TB.covers(merged, TB.U32), "R4", inst + ":total", "%d intervals partition 0..=u32::MAX" % len(merged),
                  "score table does not partition 0..=u32::MAX", ctx.loc(b))
        mono = all(merged[i][2] >= merged[i + 1][2] for i in range(len(merged) - 1))
        ctx.check(mono, "R4", inst + ":non-increasing", "quality is non-increasing in distance: %s" % [(a, bb, round(v, 3)) for a, bb, v in merged],
                  "quality is not a non-increasing function of distance: %s" % [(a, bb, round(v, 3)) for a, bb, v in merged], ctx.loc(b))
        rng = all(0.05 - 1e-6 <= v <= 1.0 + 1e-9 for (_, _, v) in merged)
        ctx.check(rng, "R4", inst + ":range", "all values within [0.05, 1.0]", "quality outside [0.05, 1.0]: %s" % [v for (_, _, v) in merged if not (0.05 - 1e-6 <= v <= 1.0)], ctx.loc(b))
        ones = [(a, bb) for (a, bb, v) in merged if v >= 1.0 - 1e-9]
        ctx.check(ones == [(0, 0)], "R4", inst + ":one-only-at-zero", "1.0 exactly on [0,0]", "quality 1.0 is reported on %s, not only at distance 0" % ones, ctx.loc(b))
        # strictly below 1.0 for distance 1 (implied), and exhaustive
    ctx.extra["exhaustive"] = True


def rule_R5(ctx):
    P = ctx.program
    cases = [("tcp", P.method("Signature", "calculate_distance", "DatabaseSignature"), TCP_COMPONENTS)]
    # http: helper calculate_http_distance
    cases.append(("http", P.method("Signature", "calculate_http_distance"), HTTP_COMPONENTS))
    for fam, bodies, comps in cases:
        bodies = [b for b in bodies if (fam == "tcp") == ("tcp::Signature" in (b.impl_self or ""))]
        if not bodies:
            ctx.cannot("R5", fam + ":calculate_distance", "body not found")
            continue
        for b in bodies:
            S = T.Slicer(b, P)
            names = []
            for blk, t in Q.calls(b):
                nm = callee_of(t).rsplit("::", 1)[-1]
                if nm.startswith("distance_"):
                    names.append((nm, blk, t))
            got = sorted(n for n, _, _ in names)
            want = sorted(comps)
            inst = fam + ":calculate_distance"
            ctx.check(got == want, "R5", inst + ":components", "components called exactly once each: %s" % got,
                      "component multiset differs from the %d signature fields: missing %s, extra/duplicate %s" % (
                          len(want), sorted(set(want) - set(got)), sorted(x for x in got if got.count(x) > 1 or x not in want)), ctx.loc(b))
            # each component result is `?`-propagated: its discriminant is switched on and the not-Some edge reaches a return
            # without passing a saturating_add, and the Some payload flows into saturating_add
            sats = Q.calls(b, "saturating_add")
            plain_add = [(i, j) for i, j, s in b.iter_stmts() if s["k"] == "assign" and s["r"]["k"] == "binop" and s["r"]["op"].startswith("Add")]
            ctx.check(len(sats) == len(want) - 1 and not plain_add, "R5", inst + ":saturating",
                      "%d saturating_add calls combine %d components, no wrapping/plain add" % (len(sats), len(want)),
                      "sum is not a saturating chain over all components (saturating_add calls: %d, plain adds: %d)" % (len(sats), len(plain_add)), ctx.loc(b))
            used = set()
            for blk, t in sats:
                for a in Q.call_args(b, S, blk, t):
                    for c in T.calls_in(a):
                        nm = c[1].rsplit("::", 1)[-1]
                        if nm.startswith("distance_"):
                            used.add(nm)
            ctx.check(used == set(want), "R5", inst + ":all-summed", "every component's payload reaches the sum",
                      "components not summed: %s" % sorted(set(want) - used), ctx.loc(b))
            # argument roles: receiver from `observed` (param 1 of calculate_distance), argument from self (param 0)
            for nm, blk, t in names:
                args = Q.call_args(b, S, blk, t)
                p0 = {x[1] for x in T.params_in(args[0])}
                p1 = {x[1] for x in T.params_in(args[1])} if len(args) > 1 else set()
                fld = comps.get(nm, ("", ""))[1]
                f0 = Q.field_path(args[0])
                f1 = Q.field_path(args[1]) if len(args) > 1 else None
                same_field = True
                if f0 and f1 and f0[1] and f1[1]:
                    same_field = f0[1][-1] == f1[1][-1] == fld
                ctx.check(p0 == {1} and p1 == {0} and same_field, "R5", "%s:%s:roles" % (inst, nm),
                          "observed.%s vs self.%s" % (fld, fld),
                          "component %s is not applied to (observed, signature) of the same field" % nm, ctx.loc(b, blk))
            # `?` propagation: one FromResidual::from_residual (or explicit None) exit per component
            # (a `?` inside a helper that holds part of the sum leaves through the helper's return value first: any destination)
            res = [t for _, t in Q.calls(b, "from_residual")]
            none_rets = [s for s in TB.return_sites(b, P, resolve=True) if _score_of(s[2], {})[0] == "None"]
            nprop = len(res) + len(none_rets)
            ctx.check(nprop >= len(want), "R5", inst + ":propagates-none", "%d None-propagating exits for %d components" % (nprop, len(want)),
                      "only %d of %d components propagate their None (`?`)" % (nprop, len(want)), ctx.loc(b))


def rule_R7(ctx, tabs):
    P = ctx.program
    b = P.method1("HttpDistance", "distance_header")
    errs = [i for i, l in enumerate(b.locals) if l.get("name") == "errors"]
    if len(errs) != 1:
        ctx.cannot("R7", "distance_header:errors", "local `errors` not found", ctx.loc(b))
        return
    var = errs[0]
    loops = C.loops(b)
    inloop = set()
    for h, blks in loops.items():
        inloop |= blks
    # first switch on `errors` outside any loop
    start = None
    for blk in sorted(b.reachable):
        if blk in inloop:
            continue
        t = b.blocks[blk]["t"]
        if t["k"] == "switch":
            if TB.operand_is_var(b, t["discr"], var):
                start = blk
                break
            c = TB._defining_cmp(b, blk, t["discr"])
            if c and (TB.operand_is_var(b, c[1], var) or TB.operand_is_var(b, c[2], var)):
                start = blk
                break
    if start is None:
        ctx.cannot("R7", "distance_header:bands", "final match on the error count not found", ctx.loc(b))
        return
    rows, imprecise = TB.interval_table(b, var, start, TB.U32, P)
    if imprecise:
        ctx.cannot("R7", "distance_header:bands", "table not exact: %s" % imprecise[:3], ctx.loc(b))
        return
    rr = []
    for (ivs, res, blk) in rows:
        sc = _score_of(res, tabs)
        rr.append((ivs, (sc[2] if sc[0] == "Some" else None) if sc[0] in ("Some", "None") else "?", blk))
    merged = TB.normalise_rows(rr)
    ctx.extra["header_error_bands"] = [[a, bb, v] for a, bb, v in merged]
    okc = TB.covers(merged, TB.U32)
    vals = [v for (_, _, v) in merged]
    mono = True
    seen_none = False
    for v in vals:
        if v is None:
            seen_none = True
        elif v == "?" or seen_none:
            mono = False
    nums = [v for v in vals if isinstance(v, int)]
    mono = mono and all(nums[i] <= nums[i + 1] for i in range(len(nums) - 1)) and (nums and nums[0] == 0)
    ctx.check(okc and mono and vals and vals[-1] is None, "R7", "distance_header:bands",
              "error bands %s" % [(a, bb, v) for a, bb, v in merged],
              "header error bands are not a monotone table from 0 to None: %s" % [(a, bb, v) for a, bb, v in merged], ctx.loc(b, start))
    # optional headers: an optional signature header that is missing is not an error: `errors` increments are guarded
    S = T.Slicer(b, P)
    incs = []
    for (bb, j, full) in S.defs().get(var, []):
        term = S.def_term(var, bb, j, 0)
        if term[0] == "call" and "saturating_add" in term[1]:
            conds = Q.canon_conds(P, T.controls(b, S, bb))
            opt = [c for c in conds if c[0] == "bool" and any(x[0] == "field" and x[2] == "optional" for x in T.walk(c[1]))]
            incs.append((bb, [c[2] for c in opt]))
    ctx.check(len(incs) >= 4, "R7", "distance_header:error-sites", "%d error increments; optional-guards: %s" % (len(incs), [o for _, o in incs]),
              "error counting sites not recognised", ctx.loc(b))
    # increments that are on a path where sig_header.optional is true would penalise optional headers
    bad = [bb for bb, o in incs if True in o and False not in o]
    ctx.check(not bad, "R7", "distance_header:optional-free", "no error increment is conditional on `optional == true`",
              "an error is counted for an *optional* signature header", ctx.loc(b, bad[0]) if bad else None)


WIDTH = {"u8": 8, "u16": 16, "u32": 32, "u64": 64, "usize": 64, "u128": 128, "i8": 8, "i16": 16, "i32": 32, "i64": 64, "isize": 64, "i128": 128}


def _nf(t):
    """normal form of a compared quantity in a distance function"""
    t = T.strip(t)
    while t[0] == "cast":
        t = T.strip(t[2])
    if t[0] == "field":
        base = T.strip(t[1])
        if base[0] == "downcast":
            who = T.strip(base[1])
            while who[0] in ("deref", "ref"):
                who = T.strip(who[1] if who[0] == "deref" else who[2])
            if who[0] == "param":
                nm = {"self": "obs", "other": "sig"}.get(who[2], who[2])
                if base[2] == "Some":
                    return nm
                return "%s.%s.%s" % (nm, base[2], t[2])
            if who[0] == "call":
                # payload of checked_xxx(..) matched as Some
                return _nf(who)
        if base[0] == "binop":
            return _nf(base)
    if t[0] == "call" and len(t[2]) == 2:
        last = t[1].rsplit("::", 1)[-1]
        fam = {"saturating_add": "add", "checked_add": "add", "wrapping_add": "add", "saturating_sub": "sub", "checked_sub": "sub", "wrapping_sub": "sub",
               "checked_div": "div", "saturating_div": "div", "wrapping_div": "div", "saturating_mul": "mul", "checked_mul": "mul", "checked_rem": "rem"}.get(last)
        if fam:
            a, c = _nf(t[2][0]), _nf(t[2][1])
            if fam in ("add", "mul"):
                a, c = sorted((a, c))
            return "%s(%s,%s)" % (fam, a, c)
    if t[0] == "binop":
        op = t[1].replace("WithOverflow", "").replace("Unchecked", "")
        fam = {"Add": "add", "Sub": "sub", "Div": "div", "Mul": "mul", "Rem": "rem"}.get(op)
        if fam:
            a, c = _nf(t[2]), _nf(t[3])
            if fam in ("add", "mul"):
                a, c = sorted((a, c))
            return "%s(%s,%s)" % (fam, a, c)
    if t[0] == "param":
        return {"self": "obs", "other": "sig"}.get(t[2], t[2])
    if t[0] in ("deref", "ref"):
        return _nf(t[1] if t[0] == "deref" else t[2])
    if t[0] == "field" and isinstance(t[2], str):
        base = T.strip(t[1])
        while base[0] in ("deref", "ref"):
            base = T.strip(base[1] if base[0] == "deref" else base[2])
        if base[0] == "param" and base[2] in ("self", "other", "observed", "signature"):
            return "%s.%s" % ({"self": "obs", "other": "sig", "observed": "obs", "signature": "sig"}[base[2]], t[2])
    if t[0] == "call" and t[1].rsplit("::", 1)[-1].startswith("get_") and len(t[2]) == 1:
        who = _nf(t[2][0])
        if who in ("obs", "sig"):
            return "%s.%s" % (who, t[1].rsplit("::", 1)[-1][4:])
    k = T.fold_int(t)
    if k is not None:
        return str(k)
    return "?" + T.pp(t)[:40]


def rule_R10(ctx):
    """R10: exact-match relations of the form-pair distance functions: for every (observed form, signature form) arm, distance 0 is
    returned under exactly the equations of tables/spec_tables.json (`obs TTL + hops = initial TTL`, `window / mss = multiplier`, ...).
    Operands, operand order of non-commutative operations and the set of equations are compared in a normal form that ignores
    saturating/checked/plain spelling and the side an equation is written on."""
    import json
    import os
    from ..engine.facts import VERIF
    with open(os.path.join(VERIF, "tables", "spec_tables.json")) as fh:
        spec = json.load(fh)["distance_equations"]
    P = ctx.program
    for fn, table in spec.items():
        if fn.startswith("_"):
            continue
        b = P.method1(fn.split("::")[0], fn.split("::")[1])
        S = T.Slicer(b, P)
        seen = set()
        exits = {}
        for (rb, j, term, conds_, split_) in TB.return_alternatives(b, P):
            tt = T.strip(term)
            if not (tt[0] == "agg" and tt[3] == "Some"):
                continue
            sc = [x for x in T.walk(tt) if x[0] == "agg" and x[3] in ("High", "Medium", "Low", "Bad")]
            if not sc or sc[0][3] != "High":
                continue
            # a value assembled after the arms (`let same = match .. {arm => a == b, ..}; let q = if same {High} else {Low}; Some(q.score())`)
            # was already split per path, with that path's deciding conditions
            exits.setdefault(rb, []).append(list(conds_) if split_ else None)
        for rb, pre in exits.items():
            if None in pre:
                # every path to this exit is read on its own: several form pairs may share one arm body (`(Value(a), Value(b)) | (Guess(a), Guess(b)) => ..`)
                trails, trunc = PA.enumerate_paths(b, 0, 3000, stop={rb})
                trails = [tr for tr in trails if tr[-1] == rb]
                if trunc or not trails:
                    ctx.cannot("R10", "%s:paths" % fn, "paths to an exact-match exit not enumerable", ctx.loc(b, rb))
                    continue
                deciding = {a for (a, s_) in C.transitive_controls(b, rb)}
                cond_lists = [[c for c in (Q._norm_cmp(c) for c in PA.path_conds(P, b, S, tr)) if c[-1] in deciding] for tr in trails]
            else:
                cond_lists = pre
            per_path = set()
            for conds in cond_lists:
                conds = [(c[0], c[1], T.inline_combinators(P, c[2]), T.inline_combinators(P, c[3])) + tuple(c[4:]) if c[0] == "cmp" else c for c in conds]
                forms = {}
                for c in conds:
                    if c[0] == "variant" and c[3] is True and T.strip(c[1])[0] in ("param", "deref", "ref"):
                        who = T.strip(c[1])
                        while who[0] in ("deref", "ref"):
                            who = T.strip(who[1] if who[0] == "deref" else who[2])
                        if who[0] == "param" and who[2] in ("self", "other"):
                            forms[who[2]] = c[2]
                arm = "%s/%s" % (forms.get("self", "*"), forms.get("other", "*"))
                eqs = tuple(sorted("eq(%s)" % ",".join(sorted((_nf(c[2]), _nf(c[3])))) for c in conds if c[0] == "cmp" and c[1] == "Eq" and c[4] is True))
                neg = len([c for c in conds if c[0] == "cmp" and not (c[1] == "Eq" and c[4] is True)])
                per_path.add((arm, eqs, neg))
            for (arm, eqs, neg) in sorted(per_path):
                eqs = list(eqs)
                want = table.get(arm)
                seen.add(arm)
                for wild in ("*/" + arm.split("/")[1], arm.split("/")[0] + "/*"):
                    if want is None and wild in table:
                        want = table[wild]
                        seen.add(wild)
                if want is None:
                    ctx.fail("R10", "%s:%s" % (fn, arm), "an exact match (distance 0) is granted for the form pair %s under %s, which the specification table does not list" % (arm, eqs), ctx.loc(b, rb))
                    continue
                wn = sorted("eq(%s)" % ",".join(sorted(e[3:-1].split(",", 1) if e.count("(") == 1 else _split_top(e[3:-1]))) for e in want)
                ctx.check(eqs == wn and not neg, "R10", "%s:%s" % (fn, arm), "distance 0 iff %s" % (" and ".join(wn) or "always"),
                          "for (%s) the exact-match relation is %s%s, the signature semantics say %s: observations the signature does not describe are accepted as exact (or "
                          "conforming ones rejected)" % (arm, eqs, " plus %d other comparisons" % neg if neg else "", wn), ctx.loc(b, rb))
        missing = sorted(set(table) - seen)
        ctx.check(not missing, "R10", fn + ":arms", "all %d form pairs of the table have an exact-match arm" % len(table),
                  "form pairs without an exact-match arm: %s" % missing, ctx.loc(b))


def rule_R12(ctx):
    """R12: each scalar / list component is charged exactly under the conditions of the specification table (value differs, and - where
    the signature may leave the value open - the signature pins a value): no extra guard, no weaker comparison"""
    import json
    import os
    from ..engine.facts import VERIF
    with open(os.path.join(VERIF, "tables", "spec_tables.json")) as fh:
        spec = json.load(fh)["distance_penalty_conditions"]
    P = ctx.program
    n = 0
    for key, want in spec.items():
        if key.startswith("_"):
            continue
        name = key.rsplit("::", 1)[-1]
        if name in ("distance_payload_size",):
            # decided exhaustively - every (observed variant, signature variant) pair on every path - by the R6 pair table, which does
            # not depend on how the test is spelled
            ctx.ok("R12", key + ":charged-iff", "decided by the exhaustive pair table (R6 %s:table)" % name)
            n += 1
            continue
        cands = [b for b in P.bodies.values() if b.crate == "huginn_net_db" and b.name == name and b.blocks and (("::" not in key) or key.split("::")[0] in b.path)]
        if "::" not in key:
            cands = [b for b in cands if "HttpDistance" not in b.path]
        if len(cands) != 1:
            ctx.cannot("R12", key, "%d bodies for %s" % (len(cands), key))
            continue
        b = cands[0]
        S = T.Slicer(b, P)
        got_sets = []
        for (rb, j, term, pconds, split) in TB.return_alternatives(b, P):
            tt = T.strip(term)
            sc = [x[3] for x in T.walk(tt) if x[0] == "agg" and x[3] in ("High", "Medium", "Low", "Bad")]
            if sc and sc[0] == "High":
                continue
            # a value assembled after the branches (`let q = if .. {High} else {Low}; Some(q.as_score())`, `c.then(..)`) is judged
            # under the conditions of the path that produced it
            conds = (Q.canon_conds(P, T.dom_conds(b, S, rb)) + list(pconds)) if split else Q.canon_conds(P, T.dom_conds(b, S, rb))
            got = set()
            for c in conds:
                if c[0] == "cmp" and c[1] in ("Eq", "Ne"):
                    eq = (c[1] == "Eq") == c[4]
                    got.add("%s(%s)" % ("eq" if eq else "ne", ",".join(sorted((_nf(c[2]), _nf(c[3]))))))
                elif c[0] == "cmp":
                    got.add("%s%s(%s,%s)" % ("" if c[4] else "not-", c[1].lower(), _nf(c[2]), _nf(c[3])))
                elif c[0] == "variant" and c[2] in ("None", "Some"):
                    pres = (c[2] == "Some") == c[3]
                    got.add("%s(%s)" % ("present" if pres else "absent", _nf(c[1])))
                elif c[0] == "variant" and c[2] == "Any":
                    got.add("%s(%s)" % ("any" if c[3] else "notany", _nf(c[1])))
                elif c[0] == "bool":
                    got.add("%s%s" % ("" if c[2] else "not-", T.pp(c[1])[:50]))
            got_sets.append(got)
        n += 1
        ok = bool(got_sets) and all(g == set(want) for g in got_sets)
        ctx.check(ok, "R12", key + ":charged-iff", "charged exactly under %s" % sorted(want),
                  "%s is charged under %s, the signature semantics say %s: a signature then accepts observations it does not describe (or rejects / penalises ones it does)"
                  % (name, [sorted(g) for g in got_sets], sorted(want)), ctx.loc(b))
    ctx.floor("R12", "components with a penalty-condition table", n, 7)


def _split_top(s):
    """split `a,b` at the top-level comma"""
    depth = 0
    for i, ch in enumerate(s):
        if ch == "(":
            depth += 1
        elif ch == ")":
            depth -= 1
        elif ch == "," and depth == 0:
            return [s[:i], s[i + 1:]]
    return [s]


def rule_R9(ctx):
    """R9: header-list comparison charges a signature header only when it is not optional (`?name`): every error increment inside
    a loop that walks signature entries is guarded by `!optional`; headers left over on the observed side are always charged"""
    P = ctx.program
    b = P.method1("HttpDistance", "distance_header")
    S = T.Slicer(b, P)
    var = [i for i, l in enumerate(b.locals) if l.get("name") == "errors"]
    if len(var) != 1:
        ctx.cannot("R9", "distance_header:errors", "local `errors` not found", ctx.loc(b))
        return
    var = var[0]
    idx_names = {}
    for i, l in enumerate(b.locals):
        if l.get("name") in ("obs_idx", "sig_idx"):
            idx_names[i] = l["name"]
    loops = C.loops(b)
    counts = {"walk": 0, "observed-rest": 0, "signature-rest": 0}
    for (db_, dj_, full) in S.defs().get(var, []):
        term = T.strip(S.def_term(var, db_, dj_, 0))
        if not (term[0] == "call" and term[1].endswith("saturating_add")):
            continue
        mine = [h for h, blks in loops.items() if db_ in blks]
        if not mine:
            continue
        h = min(mine, key=lambda x: len(loops[x]))
        blks = loops[h]
        tested = set()
        for x in blks:
            t = b.blocks[x]["t"]
            if t["k"] == "switch" and any(sx not in blks for sx in b.succs(x)):
                for st in b.blocks[x]["s"]:
                    if st["k"] == "assign" and st["r"]["k"] == "binop" and st["r"]["op"] in ("Lt", "Le", "Gt", "Ge"):
                        for o in (st["r"]["a"], st["r"]["b"]):
                            pl = o.get("c") or o.get("m")
                            if pl is not None:
                                r = TB._root_local(b, pl["l"])
                                if r in idx_names:
                                    tested.add(idx_names[r])
                # a loop that ends when an iterator over one of the lists is exhausted (`for h in observed.iter().skip(obs_idx)`)
                be = T.branch_edges(b, S, x)
                if be is not None and be[0][0] == "variant":
                    src = T.strip(be[0][1])
                    # .. or when `list.get(idx)` finds nothing (`while let (Some(o), Some(s)) = (observed.get(i), signature.get(j))`)
                    if src[0] == "call" and (src[1].endswith("::next") or (src[1].endswith("::get") and ("[T]" in src[1] or "slice::" in src[1]))):
                        for y in T.walk(src):
                            if y[0] == "param" and y[2] in ("observed", "signature"):
                                tested.add({"observed": "obs_idx", "signature": "sig_idx"}[y[2]])
        kind = "walk" if tested == {"obs_idx", "sig_idx"} else "observed-rest" if tested == {"obs_idx"} else "signature-rest" if tested == {"sig_idx"} else "?"
        conds = Q.canon_conds(P, T.dom_conds(b, S, db_))
        opt_false = any(c[0] == "bool" and c[2] is False and any(x[0] == "field" and x[2] == "optional" for x in T.walk(c[1])) and
                        any(x[0] == "param" and x[2] == "signature" for x in T.walk(c[1])) for c in conds)
        if kind in counts:
            counts[kind] += 1
        inst = "distance_header:%s:charge@%d" % (kind, counts.get(kind, 0))
        if kind in ("walk", "signature-rest"):
            ctx.check(opt_false, "R9", inst, "a signature header is charged only when it is not optional",
                      "in the %s loop an error is counted for a signature header without testing its `optional` flag: a signature ending in (or containing) `?Header` "
                      "entries is penalised when the header is absent, so conforming traffic scores worse than the exact match it is" % kind, ctx.loc(b, db_))
        elif kind == "observed-rest":
            ctx.check(True, "R9", inst, "headers left over on the observed side are charged", "", ctx.loc(b, db_))
        else:
            ctx.cannot("R9", inst, "error increment inside a loop whose index tests are not recognised", ctx.loc(b, db_))
    # an observed header is consumed in the joint walk only by a signature entry of the same name (a skipped optional entry or a
    # missing required one leaves the observed header for the next signature entry)
    ov = [i for i, nm in idx_names.items() if nm == "obs_idx"]
    sv = [i for i, nm in idx_names.items() if nm == "sig_idx"]
    if len(ov) == 1 and len(sv) == 1:
        nadv, loose = 0, []
        for (db_, dj_, full) in S.defs().get(ov[0], []):
            mine = [h for h, blks in loops.items() if db_ in blks]
            if not mine:
                continue
            blks = loops[min(mine, key=lambda x: len(loops[x]))]
            if not any(d2 in blks for (d2, _j, _f) in S.defs().get(sv[0], [])):
                continue    # the remainder loop over the observed side
            nadv += 1
            conds = Q.canon_conds(P, T.dom_conds(b, S, db_))
            same = any(c[0] == "cmp" and c[1] == "Eq" and c[4] is True and all(any(x[0] == "field" and x[2] == "name" for x in T.walk(side)) for side in (c[2], c[3]))
                       for c in conds)
            if not same:
                loose.append(db_)
        if nadv:
            ctx.check(not loose, "R9", "distance_header:walk:observed-consumed-by-same-name", "%d advances of the observed index in the joint walk, each under `names equal`" % nadv,
                      "the joint walk advances the observed index although the two header names differ: the observed header is swallowed by an entry "
                      "it does not correspond to and the headers behind it no longer line up, so conforming traffic collects errors", ctx.loc(b, loose[0]) if loose else None)
    ctx.check(counts["walk"] >= 2 and counts["observed-rest"] >= 1 and counts["signature-rest"] >= 1, "R9", "distance_header:charge-sites",
              "error increments: %s" % counts, "expected error increments in the joint walk (2), the observed remainder (1) and the signature remainder (1); found %s" % counts, ctx.loc(b))


def rule_R11(ctx):
    """R11: the option layout and the quirk list are compared as whole lists (==): no pairwise zip (which stops at the shorter
    list, so a prefix counts as equal), no truncation"""
    P = ctx.program
    n = 0
    for b in P.bodies.values():
        if b.crate != "huginn_net_db" or not b.name.startswith("distance_") or not b.blocks:
            continue
        n += 1
        bad = []
        for cb in [b] + P.closures_of(b.path):
            for blk, t in cb.calls():
                nm = callee_of(t)
                if nm.endswith(("::zip", "::take", "::skip", "::take_while", "::skip_while", "::step_by", "::starts_with", "::ends_with", "::windows")) and "Iterator" in nm + "" or \
                        (nm.endswith(("::zip",)) ):
                    bad.append((cb, blk, T.short(nm)))
                elif nm.endswith(("::starts_with", "::ends_with")) and "slice" in nm:
                    bad.append((cb, blk, T.short(nm)))
        if b.name == "distance_header":
            continue   # ordered header walk with optional entries: judged by R9 / R7
        ctx.check(not bad, "R11", "%s:whole-lists" % T.short(b.path), "no pairwise / truncating comparison",
                  "%s compares lists through %s: a list that is a proper prefix (or extension) of the other counts as equal, so the distance function accepts observations the "
                  "signature does not describe - and the exact-string index key hides them from the lookup" % (b.name, ",".join(x[2] for x in bad)), ctx.loc(bad[0][0], bad[0][1]) if bad else ctx.loc(b))
    ctx.floor("R11", "distance_* functions", n, 8)


def rule_R8(ctx):
    """R8: quantities compared by the distance functions are never truncated: every integer conversion in the matching code
    widens (a narrowed ratio / length aliases distinct values onto one, turning a mismatch into an exact hit)"""
    P = ctx.program
    n = 0
    for b in P.bodies.values():
        if b.crate != "huginn_net_db" or not any(k in b.path for k in ("tcp::", "http::", "observable_", "db::")):
            continue
        for i, j, s in b.iter_stmts():
            if s["k"] == "assign" and s["r"]["k"] == "cast" and s["r"].get("ck") == "IntToInt":
                fr, to = s["r"].get("from"), s["r"]["ty"]
                if fr in WIDTH and to in WIDTH:
                    n += 1
                    ctx.check(WIDTH[to] >= WIDTH[fr], "R8", "%s:cast:%s->%s" % (T.short(b.path), fr, to), "widening conversion %s -> %s" % (fr, to),
                              "%s truncates a %s to %s before comparing it: values that differ by a multiple of 2^%d compare equal, so a signature is accepted as an exact "
                              "instance (distance 0) for observations it does not describe" % (T.short(b.path), fr, to, WIDTH[to]), ctx.loc(b, i))
    # positive example for this zero-tolerance rule: the fact base does contain integer conversions (anywhere in the workspace)
    total = sum(1 for b in P.bodies.values() for _, _, s in b.iter_stmts() if s["k"] == "assign" and s["r"]["k"] == "cast" and s["r"].get("ck") == "IntToInt")
    ctx.floor("R8", "integer conversions exported for the workspace (matching code: %d)" % n, total, 40)


def run(ctx):
    from ..engine import report as _R
    from . import C02 as _C02
    _C02.rule_structural_equality(_R.Retag(ctx, "C02."))
    rule_R12(ctx)
    from . import _narrow as N
    N.narrowing_preserved(ctx, ctx.program, "R8", ("huginn_net_db",))
    rule_R11(ctx)
    rule_R10(ctx)
    rule_R8(ctx)
    rule_R9(ctx)
    tabs = _score_tables(ctx)
    rule_R1(ctx)
    rule_components(ctx, tabs)
    rule_R6_enum_wildcards(ctx, tabs)
    rule_enum_pair_tables(ctx, tabs)
    rule_R4(ctx)
    rule_R5(ctx)
    rule_R7(ctx, tabs)
