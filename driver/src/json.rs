// Minimal JSON value + writer (the driver has zero cargo dependencies).
pub enum J {
    Null,
    Bool(bool),
    Num(i128),
    Str(String),
    Arr(Vec<J>),
    Obj(Vec<(String, J)>),
}

fn esc(s: &str, out: &mut String) {
    out.push('"');
    for c in s.chars() {
        match c {
            '"' => out.push_str("\\\""),
            '\\' => out.push_str("\\\\"),
            '\n' => out.push_str("\\n"),
            '\r' => out.push_str("\\r"),
            '\t' => out.push_str("\\t"),
            c if (c as u32) < 0x20 => out.push_str(&format!("\\u{:04x}", c as u32)),
            c => out.push(c),
        }
    }
    out.push('"');
}

impl J {
    pub fn write(&self, out: &mut String) {
        match self {
            J::Null => out.push_str("null"),
            J::Bool(b) => out.push_str(if *b { "true" } else { "false" }),
            J::Num(n) => out.push_str(&n.to_string()),
            J::Str(s) => esc(s, out),
            J::Arr(v) => {
                out.push('[');
                for (i, x) in v.iter().enumerate() {
                    if i > 0 {
                        out.push(',');
                    }
                    x.write(out);
                }
                out.push(']');
            }
            J::Obj(v) => {
                out.push('{');
                for (i, (k, x)) in v.iter().enumerate() {
                    if i > 0 {
                        out.push(',');
                    }
                    esc(k, out);
                    out.push(':');
                    x.write(out);
                }
                out.push('}');
            }
        }
    }
}
