// hn-facts: rustc_private driver that behaves as rustc and, for the huginn-net
// workspace crates, additionally serialises MIR / ADT / impl / const facts as JSON.
// No property logic lives here; rules are in /verif/rules.
#![feature(rustc_private)]
#![allow(clippy::all)]

extern crate rustc_abi;
extern crate rustc_driver;
extern crate rustc_hir;
extern crate rustc_interface;
extern crate rustc_lint;
extern crate rustc_middle;
extern crate rustc_session;
extern crate rustc_span;

mod json;
use json::J;

use rustc_driver::Compilation;
use rustc_hir::def::DefKind;
use rustc_hir::def_id::{DefId, LocalDefId};
use rustc_middle::mir::interpret::{GlobalAlloc, Scalar};
use rustc_middle::mir::{
    self, AggregateKind, AssertKind, BinOp, Body, BorrowKind, Const, ConstValue, Operand, Place,
    ProjectionElem, Rvalue, StatementKind, TerminatorKind,
};
use rustc_middle::ty::print::{with_crate_prefix, with_no_trimmed_paths};
use rustc_middle::ty::{self, Instance, Ty, TyCtxt, TypingEnv};
use rustc_span::Span;

struct Cb;

impl rustc_driver::Callbacks for Cb {
    fn after_analysis<'tcx>(
        &mut self,
        _c: &rustc_interface::interface::Compiler,
        tcx: TyCtxt<'tcx>,
    ) -> Compilation {
        let out = match std::env::var("HN_FACTS_OUT") {
            Ok(o) => o,
            Err(_) => return Compilation::Continue,
        };
        let krate = tcx.crate_name(rustc_hir::def_id::LOCAL_CRATE).to_string();
        if !krate.starts_with("huginn_net") {
            return Compilation::Continue;
        }
        // Only the lib target (cargo check --lib); skip anything compiled with --test.
        if tcx.sess.opts.test {
            return Compilation::Continue;
        }
        let facts = with_crate_prefix!(with_no_trimmed_paths!(export(tcx, &krate)));
        let mut s0 = String::with_capacity(1 << 22);
        facts.write(&mut s0);
        let s = qualify_crate(&s0, &krate);
        let _ = std::fs::create_dir_all(&out);
        let tmp = format!("{}/{}.json.tmp{}", out, krate, std::process::id());
        let fin = format!("{}/{}.json", out, krate);
        std::fs::write(&tmp, s).expect("write facts");
        std::fs::rename(&tmp, &fin).expect("rename facts");
        Compilation::Continue
    }
}

/// Replace every path-initial `crate::` (as printed under with_crate_prefix!) by `<krate>::`.
fn qualify_crate(s: &str, krate: &str) -> String {
    let b = s.as_bytes();
    let pat = b"crate::";
    let mut out = String::with_capacity(s.len() + s.len() / 8);
    let mut i = 0;
    let mut last = 0;
    while i + pat.len() <= b.len() {
        if &b[i..i + pat.len()] == pat {
            let prev = if i == 0 { b' ' } else { b[i - 1] };
            if !(prev == b'$' || prev == b'_' || prev.is_ascii_alphanumeric()) {
                out.push_str(&s[last..i]);
                out.push_str(krate);
                out.push_str("::");
                i += pat.len();
                last = i;
                continue;
            }
        }
        i += 1;
    }
    out.push_str(&s[last..]);
    out
}

fn main() {
    let mut args: Vec<String> = std::env::args().collect();
    // RUSTC_WORKSPACE_WRAPPER convention: argv[1] is the path of the real rustc.
    if args.len() > 1 && (args[1].ends_with("rustc") || args[1].contains("/rustc")) {
        args.remove(1);
    }
    rustc_driver::run_compiler(&args, &mut Cb);
}

// ---------------------------------------------------------------------------

struct Cx<'tcx> {
    tcx: TyCtxt<'tcx>,
    krate: String,
}

impl<'tcx> Cx<'tcx> {
    fn path(&self, did: DefId) -> String {
        self.tcx.def_path_str(did)
    }
    fn path_args(&self, did: DefId, args: ty::GenericArgsRef<'tcx>) -> String {
        self.tcx.def_path_str_with_args(did, args)
    }
    fn span(&self, sp: Span) -> J {
        let sm = self.tcx.sess.source_map();
        let cs = sp.source_callsite();
        let lo = sm.lookup_char_pos(cs.lo());
        let hi = sm.lookup_char_pos(cs.hi());
        let file = match &lo.file.name {
            rustc_span::FileName::Real(r) => match r.local_path() {
                Some(p) => p.to_string_lossy().to_string(),
                None => format!("{:?}", lo.file.name),
            },
            n => format!("{:?}", n),
        };
        let mut o = vec![
            ("file".into(), J::Str(file)),
            ("lo".into(), J::Num(lo.line as i128)),
            ("hi".into(), J::Num(hi.line as i128)),
            ("col".into(), J::Num(lo.col.0 as i128)),
        ];
        if sp.from_expansion() {
            let ed = sp.ctxt().outer_expn_data();
            o.push(("exp".into(), J::Str(format!("{}", ed.kind.descr()))));
            // full macro backtrace names (outermost last)
            let names: Vec<J> = sp
                .macro_backtrace()
                .map(|e| J::Str(e.kind.descr().to_string()))
                .collect();
            o.push(("expbt".into(), J::Arr(names)));
        }
        J::Obj(o)
    }
    fn line(&self, sp: Span) -> i128 {
        let sm = self.tcx.sess.source_map();
        sm.lookup_char_pos(sp.source_callsite().lo()).line as i128
    }
}

fn export<'tcx>(tcx: TyCtxt<'tcx>, krate: &str) -> J {
    let cx = Cx { tcx, krate: krate.to_string() };
    let mut bodies = Vec::new();
    let mut consts = Vec::new();
    for ldid in tcx.hir_body_owners() {
        let did = ldid.to_def_id();
        let kind = tcx.def_kind(did);
        match kind {
            DefKind::Fn | DefKind::AssocFn | DefKind::Closure => {
                bodies.push(export_body(&cx, ldid, kind));
            }
            DefKind::Const { .. } | DefKind::AssocConst { .. } | DefKind::Static { .. } => {
                consts.push(export_const(&cx, ldid));
            }
            _ => {}
        }
    }
    let mut adts = Vec::new();
    let mut impls = Vec::new();
    let mut traits = Vec::new();
    for ldid in tcx.hir_crate_items(()).definitions() {
        let did = ldid.to_def_id();
        match tcx.def_kind(did) {
            DefKind::Struct | DefKind::Enum => adts.push(export_adt(&cx, did)),
            DefKind::Impl { .. } => impls.push(export_impl(&cx, did)),
            DefKind::Trait => {
                let mut methods = Vec::new();
                for it in tcx.associated_items(did).in_definition_order() {
                    if matches!(it.kind, ty::AssocKind::Fn { .. }) {
                        methods.push(J::Obj(vec![
                            ("name".into(), J::Str(it.name().to_string())),
                            ("path".into(), J::Str(cx.path(it.def_id))),
                            ("has_default".into(), J::Bool(it.defaultness(tcx).has_value())),
                        ]));
                    }
                }
                traits.push(J::Obj(vec![
                    ("path".into(), J::Str(cx.path(did))),
                    ("methods".into(), J::Arr(methods)),
                ]));
            }
            _ => {}
        }
    }
    // unsafe blocks written by the user (HIR), and crate-level lint level of unsafe_code
    let mut unsafe_sites = Vec::new();
    collect_unsafe(&cx, &mut unsafe_sites);
    let lvl = {
        let store = rustc_lint::unerased_lint_store(tcx.sess);
        match store.find_lints("unsafe_code") {
            Some(ids) if !ids.is_empty() => format!(
                "{:?}",
                tcx.lint_level_at_node(ids[0].lint, rustc_hir::CRATE_HIR_ID).level
            ),
            _ => "unknown".to_string(),
        }
    };
    J::Obj(vec![
        ("crate".into(), J::Str(krate.to_string())),
        ("bodies".into(), J::Arr(bodies)),
        ("consts".into(), J::Arr(consts)),
        ("adts".into(), J::Arr(adts)),
        ("impls".into(), J::Arr(impls)),
        ("traits".into(), J::Arr(traits)),
        ("unsafe_sites".into(), J::Arr(unsafe_sites)),
        ("unsafe_code_lint".into(), J::Str(lvl)),
    ])
}

fn collect_unsafe<'tcx>(cx: &Cx<'tcx>, out: &mut Vec<J>) {
    use rustc_hir::intravisit::{self, Visitor};
    struct V<'a, 'tcx> {
        cx: &'a Cx<'tcx>,
        out: &'a mut Vec<J>,
    }
    impl<'a, 'tcx> Visitor<'tcx> for V<'a, 'tcx> {
        type NestedFilter = rustc_middle::hir::nested_filter::All;
        fn maybe_tcx(&mut self) -> TyCtxt<'tcx> {
            self.cx.tcx
        }
        fn visit_block(&mut self, b: &'tcx rustc_hir::Block<'tcx>) {
            if let rustc_hir::BlockCheckMode::UnsafeBlock(src) = b.rules {
                if matches!(src, rustc_hir::UnsafeSource::UserProvided) && !b.span.from_expansion()
                {
                    self.out.push(J::Obj(vec![
                        ("kind".into(), J::Str("block".into())),
                        ("span".into(), self.cx.span(b.span)),
                    ]));
                }
            }
            intravisit::walk_block(self, b);
        }
        fn visit_item(&mut self, it: &'tcx rustc_hir::Item<'tcx>) {
            match &it.kind {
                rustc_hir::ItemKind::Impl(im) => {
                    let uns = im
                        .of_trait
                        .as_ref()
                        .map(|t| format!("{:?}", t.safety).contains("Unsafe"))
                        .unwrap_or(false);
                    if uns && !it.span.from_expansion() {
                        self.out.push(J::Obj(vec![
                            ("kind".into(), J::Str("impl".into())),
                            ("span".into(), self.cx.span(it.span)),
                        ]));
                    }
                }
                rustc_hir::ItemKind::Fn { sig, .. } => {
                    if format!("{:?}", sig.header.safety).contains("Unsafe")
                        && !it.span.from_expansion()
                    {
                        self.out.push(J::Obj(vec![
                            ("kind".into(), J::Str("fn".into())),
                            ("span".into(), self.cx.span(it.span)),
                        ]));
                    }
                }
                _ => {}
            }
            intravisit::walk_item(self, it);
        }
    }
    let mut v = V { cx, out };
    cx.tcx.hir_walk_toplevel_module(&mut v);
}

fn export_adt<'tcx>(cx: &Cx<'tcx>, did: DefId) -> J {
    let tcx = cx.tcx;
    let adt = tcx.adt_def(did);
    let mut variants = Vec::new();
    for (vi, v) in adt.variants().iter_enumerated() {
        let discr = if adt.is_enum() {
            J::Num(adt.discriminant_for_variant(tcx, vi).val as i128)
        } else {
            J::Null
        };
        let mut fields = Vec::new();
        for f in v.fields.iter() {
            let fty = tcx.type_of(f.did).instantiate_identity().skip_norm_wip();
            fields.push(J::Obj(vec![
                ("name".into(), J::Str(f.name.to_string())),
                ("ty".into(), J::Str(fty.to_string())),
                ("pub".into(), J::Bool(f.vis.is_public())),
            ]));
        }
        variants.push(J::Obj(vec![
            ("name".into(), J::Str(v.name.to_string())),
            ("discr".into(), discr),
            ("fields".into(), J::Arr(fields)),
        ]));
    }
    J::Obj(vec![
        ("path".into(), J::Str(cx.path(did))),
        ("kind".into(), J::Str(if adt.is_enum() { "enum" } else { "struct" }.into())),
        ("span".into(), cx.span(tcx.def_span(did))),
        ("variants".into(), J::Arr(variants)),
    ])
}

fn export_impl<'tcx>(cx: &Cx<'tcx>, did: DefId) -> J {
    let tcx = cx.tcx;
    let self_ty = tcx.type_of(did).instantiate_identity().skip_norm_wip();
    let tr = tcx
        .impl_opt_trait_ref(did)
        .map(|t| t.instantiate_identity().skip_norm_wip())
        .map(|t| J::Str(cx.path_args(t.def_id, t.args)))
        .unwrap_or(J::Null);
    let tr_def = tcx
        .impl_opt_trait_ref(did)
        .map(|t| J::Str(cx.path(t.skip_binder().def_id)))
        .unwrap_or(J::Null);
    let mut methods = Vec::new();
    for it in tcx.associated_items(did).in_definition_order() {
        if matches!(it.kind, ty::AssocKind::Fn { .. }) {
            methods.push(J::Obj(vec![
                ("name".into(), J::Str(it.name().to_string())),
                ("path".into(), J::Str(cx.path(it.def_id))),
            ]));
        }
    }
    J::Obj(vec![
        ("self_ty".into(), J::Str(self_ty.to_string())),
        ("trait".into(), tr),
        ("trait_def".into(), tr_def),
        ("span".into(), cx.span(tcx.def_span(did))),
        ("methods".into(), J::Arr(methods)),
    ])
}

fn export_const<'tcx>(cx: &Cx<'tcx>, ldid: LocalDefId) -> J {
    let tcx = cx.tcx;
    let did = ldid.to_def_id();
    let ty = tcx.type_of(did).instantiate_identity().skip_norm_wip();
    let val = match tcx.def_kind(did) {
        DefKind::Static { .. } => match tcx.eval_static_initializer(did) {
            Ok(alloc) => alloc_bytes(alloc.inner())
                .map(|b| J::Obj(vec![("raw".into(), bytes_json(&b))]))
                .unwrap_or(J::Null),
            Err(_) => J::Null,
        },
        _ => {
            if tcx.generics_of(did).requires_monomorphization(tcx) {
                J::Null
            } else {
                match tcx.const_eval_poly(did) {
                    Ok(v) => const_value(cx, v, ty),
                    Err(_) => J::Null,
                }
            }
        }
    };
    J::Obj(vec![
        ("path".into(), J::Str(cx.path(did))),
        ("ty".into(), J::Str(ty.to_string())),
        ("span".into(), cx.span(tcx.def_span(did))),
        ("val".into(), val),
    ])
}

fn bytes_json(b: &[u8]) -> J {
    J::Arr(b.iter().map(|x| J::Num(*x as i128)).collect())
}

fn alloc_bytes(alloc: &rustc_middle::mir::interpret::Allocation) -> Option<Vec<u8>> {
    if !alloc.provenance().ptrs().is_empty() {
        return None;
    }
    let len = alloc.len();
    Some(alloc.inspect_with_uninit_and_ptr_outside_interpreter(0..len).to_vec())
}

fn scalar_json<'tcx>(cx: &Cx<'tcx>, s: Scalar, ty: Ty<'tcx>) -> J {
    match s {
        Scalar::Int(si) => {
            let size = si.size();
            match ty.kind() {
                ty::Bool => J::Obj(vec![("bool".into(), J::Bool(si.to_bits(size) != 0))]),
                ty::Char => J::Obj(vec![(
                    "char".into(),
                    J::Str(
                        char::from_u32(si.to_bits(size) as u32).map(|c| c.to_string()).unwrap_or_default(),
                    ),
                )]),
                ty::Int(_) => J::Obj(vec![("int".into(), J::Num(si.to_int(size)))]),
                ty::Uint(_) => J::Obj(vec![("int".into(), J::Num(si.to_bits(size) as i128))]),
                ty::Float(_) => J::Obj(vec![
                    ("fbits".into(), J::Num(si.to_bits(size) as i128)),
                    ("fsize".into(), J::Num(size.bytes() as i128)),
                ]),
                ty::Adt(adt, _) if adt.is_enum() => {
                    // fieldless enum constant stored as scalar
                    J::Obj(vec![("enum_bits".into(), J::Num(si.to_bits(size) as i128))])
                }
                _ => J::Obj(vec![("bits".into(), J::Num(si.to_bits(size) as i128))]),
            }
        }
        Scalar::Ptr(ptr, _) => {
            let (prov, off) = ptr.into_raw_parts();
            let aid = prov.alloc_id();
            match cx.tcx.try_get_global_alloc(aid) {
                Some(GlobalAlloc::Memory(a)) => {
                    if let Some(b) = alloc_bytes(a.inner()) {
                        let off = off.bytes() as usize;
                        let b = if off <= b.len() { &b[off..] } else { &b[..] };
                        // &[u8; N] byte-string literal or &[T; N]
                        J::Obj(vec![("ref_bytes".into(), bytes_json(b))])
                    } else {
                        // `&&T` style promoted: an allocation holding exactly one pointer; follow it
                        let mut cur = a;
                        let mut depth = 1;
                        let mut res = J::Obj(vec![("ptr".into(), J::Str("alloc-with-ptrs".into()))]);
                        while depth < 4 {
                            let inner = cur.inner();
                            let ptrs = inner.provenance().ptrs();
                            if ptrs.len() == 1 && inner.len() == 16 {
                                // fat pointer (&str / &[u8]) behind a reference: (ptr, len)
                                let (_o, prov) = ptrs.iter().next().map(|(o, p)| (*o, *p)).unwrap();
                                let raw = inner.inspect_with_uninit_and_ptr_outside_interpreter(8..16);
                                let mut lb = [0u8; 8];
                                lb.copy_from_slice(raw);
                                let ln = u64::from_le_bytes(lb) as usize;
                                if let Some(GlobalAlloc::Memory(n)) = cx.tcx.try_get_global_alloc(prov.alloc_id()) {
                                    if let Some(b) = alloc_bytes(n.inner()) {
                                        if ln <= b.len() {
                                            res = match std::str::from_utf8(&b[..ln]) {
                                                Ok(st) => J::Obj(vec![("str".into(), J::Str(st.to_string()))]),
                                                Err(_) => J::Obj(vec![("ref_bytes".into(), bytes_json(&b[..ln]))]),
                                            };
                                        }
                                    }
                                }
                                break;
                            }
                            if ptrs.len() != 1 || inner.len() != 8 {
                                break;
                            }
                            let (_o, prov) = ptrs.iter().next().map(|(o, p)| (*o, *p)).unwrap();
                            match cx.tcx.try_get_global_alloc(prov.alloc_id()) {
                                Some(GlobalAlloc::Memory(n)) => {
                                    if let Some(b) = alloc_bytes(n.inner()) {
                                        res = J::Obj(vec![
                                            ("ref_bytes".into(), bytes_json(&b)),
                                            ("ref_depth".into(), J::Num(depth + 1)),
                                        ]);
                                        break;
                                    }
                                    cur = n;
                                    depth += 1;
                                }
                                _ => break,
                            }
                        }
                        res
                    }
                }
                Some(GlobalAlloc::Static(d)) => {
                    J::Obj(vec![("static".into(), J::Str(cx.path(d)))])
                }
                Some(GlobalAlloc::Function { instance }) => {
                    J::Obj(vec![("fnptr".into(), J::Str(cx.path(instance.def_id())))])
                }
                _ => J::Obj(vec![("ptr".into(), J::Str("?".into()))]),
            }
        }
    }
}

fn const_value<'tcx>(cx: &Cx<'tcx>, v: ConstValue, ty: Ty<'tcx>) -> J {
    let tcx = cx.tcx;
    match v {
        ConstValue::Scalar(s) => scalar_json(cx, s, ty),
        ConstValue::ZeroSized => match ty.kind() {
            ty::FnDef(did, args) => J::Obj(vec![
                ("fn".into(), J::Str(cx.path(*did))),
                ("fn_args".into(), J::Str(cx.path_args(*did, args))),
            ]),
            _ => J::Obj(vec![("zst".into(), J::Str(ty.to_string()))]),
        },
        ConstValue::Slice { .. } => match v.try_get_slice_bytes_for_diagnostics(tcx) {
            Some(b) => {
                let is_str = matches!(ty.kind(), ty::Ref(_, t, _) if t.is_str());
                if is_str {
                    J::Obj(vec![("str".into(), J::Str(String::from_utf8_lossy(b).to_string()))])
                } else {
                    J::Obj(vec![("bytes".into(), bytes_json(b))])
                }
            }
            None => J::Obj(vec![("slice".into(), J::Str("?".into()))]),
        },
        ConstValue::Indirect { alloc_id, offset } => match tcx.try_get_global_alloc(alloc_id) {
            Some(GlobalAlloc::Memory(a)) => match alloc_bytes(a.inner()) {
                Some(b) => {
                    let off = offset.bytes() as usize;
                    let b = if off <= b.len() { &b[off..] } else { &b[..] };
                    J::Obj(vec![("raw".into(), bytes_json(b))])
                }
                None => {
                    // fat pointer constant (&[u8] / &str stored indirectly): (ptr, len)
                    let inner = a.inner();
                    let ptrs = inner.provenance().ptrs();
                    let off = offset.bytes() as usize;
                    let mut res = J::Obj(vec![("indirect".into(), J::Str("ptrs".into()))]);
                    if ptrs.len() == 1 && inner.len() >= off + 16 {
                        let (_o, prov) = ptrs.iter().next().map(|(o, p)| (*o, *p)).unwrap();
                        let raw = inner.inspect_with_uninit_and_ptr_outside_interpreter(off + 8..off + 16);
                        let mut lb = [0u8; 8];
                        lb.copy_from_slice(raw);
                        let ln = u64::from_le_bytes(lb) as usize;
                        if let Some(GlobalAlloc::Memory(n)) = tcx.try_get_global_alloc(prov.alloc_id()) {
                            if let Some(b) = alloc_bytes(n.inner()) {
                                if ln <= b.len() {
                                    let is_str = matches!(ty.kind(), ty::Ref(_, t, _) if t.is_str());
                                    res = if is_str {
                                        J::Obj(vec![("str".into(), J::Str(String::from_utf8_lossy(&b[..ln]).to_string()))])
                                    } else {
                                        J::Obj(vec![("bytes".into(), bytes_json(&b[..ln]))])
                                    };
                                }
                            }
                        }
                    }
                    res
                }
            },
            _ => J::Obj(vec![("indirect".into(), J::Str("?".into()))]),
        },
    }
}

fn export_body<'tcx>(cx: &Cx<'tcx>, ldid: LocalDefId, kind: DefKind) -> J {
    let tcx = cx.tcx;
    let did = ldid.to_def_id();
    let body: &Body<'tcx> = tcx.optimized_mir(did);
    let tenv = TypingEnv::post_analysis(tcx, did);

    // user names of locals
    let mut names: Vec<Option<String>> = vec![None; body.local_decls.len()];
    let mut upvar_names: Vec<(usize, String)> = Vec::new();
    for vdi in &body.var_debug_info {
        if let mir::VarDebugInfoContents::Place(p) = &vdi.value {
            if p.projection.is_empty() {
                names[p.local.as_usize()] = Some(vdi.name.to_string());
            } else if p.local.as_usize() == 1 {
                // closure upvar: _1.N or (*_1).N
                for e in p.projection.iter() {
                    if let ProjectionElem::Field(f, _) = e {
                        upvar_names.push((f.as_usize(), vdi.name.to_string()));
                        break;
                    }
                }
            }
        }
    }
    let mut locals = Vec::new();
    for (l, d) in body.local_decls.iter_enumerated() {
        let mut o = vec![("ty".into(), J::Str(d.ty.to_string()))];
        if let Some(n) = &names[l.as_usize()] {
            o.push(("name".into(), J::Str(n.clone())));
        }
        if d.mutability.is_mut() {
            o.push(("mut".into(), J::Bool(true)));
        }
        locals.push(J::Obj(o));
    }

    let blocks = blocks_json(cx, body, tenv);
    let mut promoted = Vec::new();
    for pb in tcx.promoted_mir(did).iter() {
        let mut pl = Vec::new();
        for d in pb.local_decls.iter() {
            pl.push(J::Obj(vec![("ty".into(), J::Str(d.ty.to_string()))]));
        }
        promoted.push(J::Obj(vec![
            ("locals".into(), J::Arr(pl)),
            ("blocks".into(), J::Arr(blocks_json(cx, pb, tenv))),
        ]));
    }

    // parent + impl info
    let parent = tcx.opt_parent(did).map(|p| cx.path(p));
    let mut o = vec![
        ("path".into(), J::Str(cx.path(did))),
        ("kind".into(), J::Str(format!("{:?}", kind))),
        ("span".into(), cx.span(tcx.def_span(did))),
        ("body_span".into(), cx.span(body.span)),
        ("arg_count".into(), J::Num(body.arg_count as i128)),
        ("locals".into(), J::Arr(locals)),
        ("blocks".into(), J::Arr(blocks)),
        ("promoted".into(), J::Arr(promoted)),
    ];
    if let Some(p) = parent {
        o.push(("parent".into(), J::Str(p)));
    }
    if matches!(kind, DefKind::Fn | DefKind::AssocFn) {
        o.push(("pub".into(), J::Bool(tcx.visibility(did).is_public())));
        let sig = tcx.fn_sig(did).instantiate_identity().skip_norm_wip();
        o.push(("sig".into(), J::Str(sig.to_string())));
    }
    if matches!(kind, DefKind::AssocFn) {
        if let Some(imp) = tcx.impl_of_assoc(did) {
            let self_ty = tcx.type_of(imp).instantiate_identity().skip_norm_wip();
            o.push(("impl_self".into(), J::Str(self_ty.to_string())));
            if let Some(tr) = tcx.impl_opt_trait_ref(imp) {
                o.push(("impl_trait".into(), J::Str(cx.path(tr.skip_binder().def_id))));
            }
        } else if let Some(tr) = tcx.trait_of_assoc(did) {
            o.push(("trait_default_of".into(), J::Str(cx.path(tr))));
        }
    }
    if !upvar_names.is_empty() {
        upvar_names.sort();
        upvar_names.dedup();
        o.push((
            "upvars".into(),
            J::Arr(
                upvar_names
                    .into_iter()
                    .map(|(i, n)| J::Arr(vec![J::Num(i as i128), J::Str(n)]))
                    .collect(),
            ),
        ));
    }
    J::Obj(o)
}

fn blocks_json<'tcx>(cx: &Cx<'tcx>, body: &Body<'tcx>, tenv: TypingEnv<'tcx>) -> Vec<J> {
    let mut blocks = Vec::new();
    for (_bb, data) in body.basic_blocks.iter_enumerated() {
        let mut stmts = Vec::new();
        for st in &data.statements {
            match &st.kind {
                StatementKind::Assign(b) => {
                    let (pl, rv) = &**b;
                    stmts.push(J::Obj(vec![
                        ("k".into(), J::Str("assign".into())),
                        ("p".into(), place(cx, body, pl)),
                        ("r".into(), rvalue(cx, body, tenv, rv, st.source_info.span)),
                        ("line".into(), J::Num(cx.line(st.source_info.span))),
                    ]));
                }
                StatementKind::SetDiscriminant { place: pl, variant_index } => {
                    stmts.push(J::Obj(vec![
                        ("k".into(), J::Str("setdiscr".into())),
                        ("p".into(), place(cx, body, pl)),
                        ("vi".into(), J::Num(variant_index.as_usize() as i128)),
                        ("line".into(), J::Num(cx.line(st.source_info.span))),
                    ]));
                }
                _ => {}
            }
        }
        let term = data.terminator();
        let tj = terminator(cx, body, tenv, term);
        let mut o = vec![("s".into(), J::Arr(stmts)), ("t".into(), tj)];
        if data.is_cleanup {
            o.push(("cleanup".into(), J::Bool(true)));
        }
        blocks.push(J::Obj(o));
    }

    blocks
}

fn place<'tcx>(cx: &Cx<'tcx>, body: &Body<'tcx>, pl: &Place<'tcx>) -> J {
    let tcx = cx.tcx;
    let mut pr = Vec::new();
    for (base, elem) in pl.iter_projections() {
        match elem {
            ProjectionElem::Deref => pr.push(J::Str("*".into())),
            ProjectionElem::Field(f, _) => {
                let pty = base.ty(body, tcx);
                let mut name = None;
                match pty.ty.kind() {
                    ty::Adt(adt, _) => {
                        let vi = pty.variant_index.unwrap_or(rustc_abi::FIRST_VARIANT);
                        if vi.as_usize() < adt.variants().len() {
                            let v = adt.variant(vi);
                            if f.as_usize() < v.fields.len() {
                                name = Some(v.fields[f].name.to_string());
                            }
                        }
                    }
                    _ => {}
                }
                let mut o = vec![("f".into(), J::Num(f.as_usize() as i128))];
                if let Some(n) = name {
                    o.push(("n".into(), J::Str(n)));
                }
                pr.push(J::Obj(o));
            }
            ProjectionElem::Index(l) => {
                pr.push(J::Obj(vec![("i".into(), J::Num(l.as_usize() as i128))]))
            }
            ProjectionElem::ConstantIndex { offset, min_length, from_end } => {
                pr.push(J::Obj(vec![
                    ("ci".into(), J::Num(offset as i128)),
                    ("min".into(), J::Num(min_length as i128)),
                    ("from_end".into(), J::Bool(from_end)),
                ]))
            }
            ProjectionElem::Subslice { from, to, from_end } => pr.push(J::Obj(vec![
                ("sub".into(), J::Arr(vec![J::Num(from as i128), J::Num(to as i128)])),
                ("from_end".into(), J::Bool(from_end)),
            ])),
            ProjectionElem::Downcast(name, vi) => pr.push(J::Obj(vec![
                ("dc".into(), J::Str(name.map(|s| s.to_string()).unwrap_or_default())),
                ("vi".into(), J::Num(vi.as_usize() as i128)),
            ])),
            _ => pr.push(J::Str("?".into())),
        }
    }
    J::Obj(vec![("l".into(), J::Num(pl.local.as_usize() as i128)), ("pr".into(), J::Arr(pr))])
}

fn operand<'tcx>(
    cx: &Cx<'tcx>,
    body: &Body<'tcx>,
    tenv: TypingEnv<'tcx>,
    op: &Operand<'tcx>,
) -> J {
    match op {
        Operand::Copy(p) => J::Obj(vec![("c".into(), place(cx, body, p))]),
        Operand::Move(p) => J::Obj(vec![("m".into(), place(cx, body, p))]),
        Operand::Constant(c) => {
            let ty = c.const_.ty();
            let mut o = vec![("ty".into(), J::Str(ty.to_string()))];
            // named constant?
            if let Const::Unevaluated(uv, _) = c.const_ {
                o.push(("named".into(), J::Str(cx.path(uv.def))));
                if let Some(pi) = uv.promoted {
                    o.push(("promoted".into(), J::Num(pi.as_usize() as i128)));
                }
            }
            let needs_mono = match c.const_ {
                Const::Unevaluated(uv, _) => {
                    uv.args.iter().any(|a| format!("{:?}", a).contains("/#"))
                        || uv.promoted.is_some() && false
                }
                _ => false,
            };
            let v = if needs_mono {
                None
            } else {
                match c.const_ {
                    Const::Val(v, _) => Some(v),
                    _ => c.const_.eval(cx.tcx, tenv, c.span).ok(),
                }
            };
            match v {
                Some(v) => o.push(("v".into(), const_value(cx, v, ty))),
                None => o.push(("v".into(), J::Null)),
            }
            J::Obj(vec![("k".into(), J::Obj(o))])
        }
        #[allow(unreachable_patterns)]
        _ => J::Obj(vec![("k".into(), J::Obj(vec![("ty".into(), J::Str("runtime-checks".into())), ("v".into(), J::Null)]))]),
    }
}

fn binop_name(b: BinOp) -> String {
    format!("{:?}", b)
}

fn rvalue<'tcx>(
    cx: &Cx<'tcx>,
    body: &Body<'tcx>,
    tenv: TypingEnv<'tcx>,
    rv: &Rvalue<'tcx>,
    _sp: Span,
) -> J {
    match rv {
        Rvalue::Use(op, ..) => {
            J::Obj(vec![("k".into(), J::Str("use".into())), ("o".into(), operand(cx, body, tenv, op))])
        }
        Rvalue::Repeat(op, n) => J::Obj(vec![
            ("k".into(), J::Str("repeat".into())),
            ("o".into(), operand(cx, body, tenv, op)),
            ("n".into(), J::Str(format!("{:?}", n))),
        ]),
        Rvalue::Ref(_, bk, p) => J::Obj(vec![
            ("k".into(), J::Str("ref".into())),
            (
                "bk".into(),
                J::Str(
                    match bk {
                        BorrowKind::Shared => "shared",
                        BorrowKind::Fake(_) => "fake",
                        BorrowKind::Mut { .. } => "mut",
                    }
                    .into(),
                ),
            ),
            ("p".into(), place(cx, body, p)),
        ]),
        Rvalue::RawPtr(k, p) => J::Obj(vec![
            ("k".into(), J::Str("rawptr".into())),
            ("rk".into(), J::Str(format!("{:?}", k))),
            ("p".into(), place(cx, body, p)),
        ]),
        Rvalue::Cast(ck, op, ty) => J::Obj(vec![
            ("k".into(), J::Str("cast".into())),
            ("ck".into(), J::Str(format!("{:?}", ck))),
            ("o".into(), operand(cx, body, tenv, op)),
            ("ty".into(), J::Str(ty.to_string())),
            ("from".into(), J::Str(op.ty(body, cx.tcx).to_string())),
        ]),
        Rvalue::BinaryOp(op, ab) => {
            let (a, b) = &**ab;
            J::Obj(vec![
                ("k".into(), J::Str("binop".into())),
                ("op".into(), J::Str(binop_name(*op))),
                ("a".into(), operand(cx, body, tenv, a)),
                ("b".into(), operand(cx, body, tenv, b)),
                ("ty".into(), J::Str(a.ty(body, cx.tcx).to_string())),
            ])
        }
        Rvalue::UnaryOp(op, a) => J::Obj(vec![
            ("k".into(), J::Str("unop".into())),
            ("op".into(), J::Str(format!("{:?}", op))),
            ("o".into(), operand(cx, body, tenv, a)),
        ]),
        Rvalue::Discriminant(p) => {
            let pty = p.ty(body, cx.tcx).ty;
            J::Obj(vec![
                ("k".into(), J::Str("discr".into())),
                ("p".into(), place(cx, body, p)),
                ("ty".into(), J::Str(pty.to_string())),
                ("variants".into(), adt_variant_names(cx, pty)),
            ])
        }
        Rvalue::Aggregate(ak, ops) => {
            let mut o = vec![("k".into(), J::Str("agg".into()))];
            match &**ak {
                AggregateKind::Array(t) => {
                    o.push(("ak".into(), J::Str("array".into())));
                    o.push(("ty".into(), J::Str(t.to_string())));
                }
                AggregateKind::Tuple => o.push(("ak".into(), J::Str("tuple".into()))),
                AggregateKind::Adt(did, vi, _args, _, active) => {
                    o.push(("ak".into(), J::Str("adt".into())));
                    o.push(("path".into(), J::Str(cx.path(*did))));
                    let adt = cx.tcx.adt_def(*did);
                    let v = adt.variant(*vi);
                    o.push(("variant".into(), J::Str(v.name.to_string())));
                    o.push(("vi".into(), J::Num(vi.as_usize() as i128)));
                    o.push((
                        "fields".into(),
                        J::Arr(v.fields.iter().map(|f| J::Str(f.name.to_string())).collect()),
                    ));
                    if let Some(a) = active {
                        o.push(("active".into(), J::Num(a.as_usize() as i128)));
                    }
                }
                AggregateKind::Closure(did, _) => {
                    o.push(("ak".into(), J::Str("closure".into())));
                    o.push(("path".into(), J::Str(cx.path(*did))));
                }
                AggregateKind::Coroutine(did, _) | AggregateKind::CoroutineClosure(did, _) => {
                    o.push(("ak".into(), J::Str("coroutine".into())));
                    o.push(("path".into(), J::Str(cx.path(*did))));
                }
                #[allow(unreachable_patterns)]
                _ => o.push(("ak".into(), J::Str("other".into()))),
            }
            o.push(("ops".into(), J::Arr(ops.iter().map(|x| operand(cx, body, tenv, x)).collect())));
            J::Obj(o)
        }
        Rvalue::CopyForDeref(p) => J::Obj(vec![
            ("k".into(), J::Str("use".into())),
            ("o".into(), J::Obj(vec![("c".into(), place(cx, body, p))])),
        ]),
        other => J::Obj(vec![
            ("k".into(), J::Str("other".into())),
            ("dbg".into(), J::Str(format!("{:?}", other))),
        ]),
    }
}

fn adt_variant_names<'tcx>(cx: &Cx<'tcx>, t: Ty<'tcx>) -> J {
    match t.kind() {
        ty::Adt(adt, _) if adt.is_enum() => {
            let mut v = Vec::new();
            for (vi, var) in adt.variants().iter_enumerated() {
                let d = adt.discriminant_for_variant(cx.tcx, vi).val;
                v.push(J::Arr(vec![J::Num(d as i128), J::Str(var.name.to_string())]));
            }
            J::Arr(v)
        }
        _ => J::Null,
    }
}

fn terminator<'tcx>(
    cx: &Cx<'tcx>,
    body: &Body<'tcx>,
    tenv: TypingEnv<'tcx>,
    term: &mir::Terminator<'tcx>,
) -> J {
    let tcx = cx.tcx;
    let sp = term.source_info.span;
    let bb = |b: mir::BasicBlock| J::Num(b.as_usize() as i128);
    let mut o: Vec<(String, J)> = Vec::new();
    match &term.kind {
        TerminatorKind::Goto { target } => {
            o.push(("k".into(), J::Str("goto".into())));
            o.push(("target".into(), bb(*target)));
        }
        TerminatorKind::SwitchInt { discr, targets } => {
            o.push(("k".into(), J::Str("switch".into())));
            o.push(("discr".into(), operand(cx, body, tenv, discr)));
            o.push(("ty".into(), J::Str(discr.ty(body, tcx).to_string())));
            let mut arms = Vec::new();
            for (v, t) in targets.iter() {
                arms.push(J::Arr(vec![J::Num(v as i128), bb(t)]));
            }
            o.push(("arms".into(), J::Arr(arms)));
            o.push(("otherwise".into(), bb(targets.otherwise())));
        }
        TerminatorKind::Return => o.push(("k".into(), J::Str("return".into()))),
        TerminatorKind::Unreachable => o.push(("k".into(), J::Str("unreachable".into()))),
        TerminatorKind::UnwindResume => o.push(("k".into(), J::Str("resume".into()))),
        TerminatorKind::UnwindTerminate(_) => o.push(("k".into(), J::Str("abort".into()))),
        TerminatorKind::Drop { place: p, target, .. } => {
            o.push(("k".into(), J::Str("drop".into())));
            o.push(("p".into(), place(cx, body, p)));
            o.push(("target".into(), bb(*target)));
        }
        TerminatorKind::Call { func, args, destination, target, .. } => {
            o.push(("k".into(), J::Str("call".into())));
            let fty = func.ty(body, tcx);
            match fty.kind() {
                ty::FnDef(did, gargs) => {
                    o.push(("decl".into(), J::Str(cx.path(*did))));
                    o.push(("decl_args".into(), J::Str(cx.path_args(*did, gargs))));
                    let resolved = Instance::try_resolve(tcx, tenv, *did, gargs).ok().flatten();
                    if let Some(inst) = resolved {
                        let rd = inst.def_id();
                        o.push(("res".into(), J::Str(cx.path(rd))));
                        o.push(("res_kind".into(), J::Str(format!("{:?}", inst.def).split('(').next().unwrap_or("").to_string())));
                    }
                    let sub: Vec<J> = gargs.iter().map(|a| J::Str(a.to_string())).collect();
                    o.push(("substs".into(), J::Arr(sub)));
                }
                _ => {
                    o.push(("decl".into(), J::Null));
                    o.push(("fnop".into(), operand(cx, body, tenv, func)));
                    o.push(("fty".into(), J::Str(fty.to_string())));
                }
            }
            o.push((
                "args".into(),
                J::Arr(args.iter().map(|a| operand(cx, body, tenv, &a.node)).collect()),
            ));
            o.push(("dest".into(), place(cx, body, destination)));
            o.push(("target".into(), target.map(bb).unwrap_or(J::Null)));
        }
        TerminatorKind::TailCall { .. } => o.push(("k".into(), J::Str("tailcall".into()))),
        TerminatorKind::Assert { cond, expected, msg, target, .. } => {
            o.push(("k".into(), J::Str("assert".into())));
            o.push(("cond".into(), operand(cx, body, tenv, cond)));
            o.push(("expected".into(), J::Bool(*expected)));
            o.push(("target".into(), bb(*target)));
            let (kind, ops): (String, Vec<J>) = match &**msg {
                AssertKind::BoundsCheck { len, index } => (
                    "BoundsCheck".into(),
                    vec![operand(cx, body, tenv, len), operand(cx, body, tenv, index)],
                ),
                AssertKind::Overflow(op, a, b) => (
                    format!("Overflow({:?})", op),
                    vec![operand(cx, body, tenv, a), operand(cx, body, tenv, b)],
                ),
                AssertKind::OverflowNeg(a) => ("OverflowNeg".into(), vec![operand(cx, body, tenv, a)]),
                AssertKind::DivisionByZero(a) => {
                    ("DivisionByZero".into(), vec![operand(cx, body, tenv, a)])
                }
                AssertKind::RemainderByZero(a) => {
                    ("RemainderByZero".into(), vec![operand(cx, body, tenv, a)])
                }
                AssertKind::MisalignedPointerDereference { .. } => ("MisalignedPointerDereference".into(), vec![]),
                AssertKind::NullPointerDereference => ("NullPointerDereference".into(), vec![]),
                other => (format!("{:?}", other).split(|c| c == '(' || c == ' ' || c == '{').next().unwrap_or("Other").to_string(), vec![]),
            };
            o.push(("kind".into(), J::Str(kind)));
            o.push(("ops".into(), J::Arr(ops)));
        }
        TerminatorKind::FalseEdge { real_target, .. } => {
            o.push(("k".into(), J::Str("goto".into())));
            o.push(("target".into(), bb(*real_target)));
        }
        TerminatorKind::FalseUnwind { real_target, .. } => {
            o.push(("k".into(), J::Str("goto".into())));
            o.push(("target".into(), bb(*real_target)));
        }
        other => {
            o.push(("k".into(), J::Str("other".into())));
            o.push(("dbg".into(), J::Str(format!("{:?}", other))));
        }
    }
    o.push(("span".into(), cx.span(sp)));
    J::Obj(o)
}
