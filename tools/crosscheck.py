#!/usr/bin/env python3
"""Driver cross-validation (thorough tier): rustc's own `-Zunpretty=mir` dump of every workspace crate is reduced to four counts
(function/closure bodies, call terminators, assert terminators, switchInt terminators) and compared with the same counts of the
JSON facts exported by the hn-facts driver.  Equality shows that the serialisation neither lost nor invented bodies or terminators.
The result is cached next to the facts of the same tree hash."""
import json
import os
import re
import shutil
import subprocess
import sys
import tempfile

HERE = os.path.dirname(os.path.dirname(os.path.abspath(__file__)))
sys.path.insert(0, HERE)
from rules.engine import facts as F  # noqa: E402

PKGS = {"huginn_net_db": "huginn-net-db", "huginn_net_tcp": "huginn-net-tcp", "huginn_net_http": "huginn-net-http",
        "huginn_net_tls": "huginn-net-tls", "huginn_net": "huginn-net"}


def text_stats(txt):
    # const fns are dumped twice (runtime MIR and `// MIR FOR CTFE`): drop the CTFE copies
    txt = re.sub(r'// MIR FOR CTFE\nfn .*?\n\}\n', '', txt, flags=re.S)
    items = re.split(r'\n(?=(?:fn |const |static |promoted\[|// WARNING))', txt)
    st = {"bodies": 0, "calls": 0, "asserts": 0, "switches": 0, "ctor_shims": 0}
    for it in items:
        if not it.startswith("fn "):
            continue
        nblocks = len(re.findall(r'^\s+bb\d+(?: \(cleanup\))?: \{', it, re.M))
        if nblocks == 1:
            # tuple struct / tuple variant constructor shim: `bb0: { _0 = Path(move _1, ..); return; }` and nothing else
            m = re.search(r'bb0: \{\n(.*?)\n\s+\}', it, re.S)
            stmts = [x.strip() for x in (m.group(1).splitlines() if m else []) if x.strip() and not x.strip().startswith("//")]
            if len(stmts) == 2 and stmts[1].startswith("return") and re.match(r'_0 = [^;=]+\((move _\d+(, )?)+\);', stmts[0]) and "let mut _" not in it.replace("let mut _0", ""):
                st["ctor_shims"] += 1
                continue
        st["bodies"] += 1
        for line in it.splitlines():
            l = line.strip()
            if l.startswith("assert("):
                st["asserts"] += 1
                continue
            if l.startswith("switchInt("):
                st["switches"] += 1
                continue
            if l.startswith(("drop(", "falseUnwind", "falseEdge")):
                continue
            if re.search(r'\) -> (\[return: bb\d+|unwind |bb\d+;)', l):
                st["calls"] += 1
    return st


def fact_stats(P, crate):
    bs = [b for b in P.bodies.values() if b.crate == crate]
    return {"bodies": len(bs),
            "calls": sum(1 for b in bs for blk in b.blocks if blk["t"]["k"] == "call"),
            "asserts": sum(1 for b in bs for blk in b.blocks if blk["t"]["k"] == "assert"),
            "switches": sum(1 for b in bs for blk in b.blocks if blk["t"]["k"] == "switch")}


def crosscheck(repo=None):
    repo = repo or F.REPO
    P = F.load_program() if repo == F.REPO else F.load_program(repo)
    key = P.info.get("tree_hash")
    cached = os.path.join(F.CACHE, key, "mirstat.json") if key else None
    if cached and os.path.exists(cached) and os.environ.get("VERIF_NO_CACHE") != "1":
        return json.load(open(cached))
    scratch = tempfile.mkdtemp(prefix="hnmir-", dir=os.environ.get("HN_SCRATCH") or None)
    res = {"crates": {}, "ok": True}
    try:
        env = dict(os.environ, CARGO_TARGET_DIR=os.path.join(scratch, "target"), RUSTFLAGS="-Zmir-opt-level=0 -Awarnings", CARGO_NET_OFFLINE="true")
        for k in ("RUSTC_WRAPPER", "RUSTC_WORKSPACE_WRAPPER", "CARGO_BUILD_RUSTC_WRAPPER"):
            env.pop(k, None)
        for crate, pkg in PKGS.items():
            p = subprocess.run(["cargo", "+nightly", "rustc", "--offline", "-q", "-p", pkg, "--lib", "--", "-Zunpretty=mir"],
                               cwd=repo, env=env, stdout=subprocess.PIPE, stderr=subprocess.PIPE, text=True)
            if p.returncode != 0:
                res["crates"][crate] = {"error": p.stderr[-400:]}
                res["ok"] = False
                continue
            ts, fs = text_stats(p.stdout), fact_stats(P, crate)
            same = all(ts[k] == fs[k] for k in fs)
            res["crates"][crate] = {"rustc_unpretty_mir": ts, "hn_facts": fs, "equal": same}
            res["ok"] = res["ok"] and same
    finally:
        shutil.rmtree(scratch, ignore_errors=True)
    if cached and os.path.isdir(os.path.dirname(cached)):
        json.dump(res, open(cached, "w"), indent=1)
    return res


if __name__ == "__main__":
    r = crosscheck()
    print(json.dumps(r, indent=1))
    sys.exit(0 if r["ok"] else 1)
