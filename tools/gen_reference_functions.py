#!/usr/bin/env python3
"""Write tables/reference_functions.json: the paths of every function body of the reference tree.

The inliner (rules/engine/inline.py) treats a function whose path is NOT in this list as new code and
inlines it into its callers before the rules run.  Regenerate only when the reference tree moves
(a `fix:` commit in /repo)."""
import json
import os
import subprocess
import sys
sys.path.insert(0, os.path.join(os.path.dirname(os.path.abspath(__file__)), "..", "rules"))
from engine import facts  # noqa: E402

os.environ["HN_NO_INLINE"] = "1"
d, info = facts.acquire()
paths = []
closures = []
meta = {}
allraws = {}
for c in facts.CRATES:
    for b in json.load(open(os.path.join(d, c + ".json")))["bodies"]:
        allraws[b["path"]] = b
for c in facts.CRATES:
    raw = json.load(open(os.path.join(d, c + ".json")))
    for b in raw["bodies"]:
        if b["kind"] == "Closure":
            # closures of the reference tree, identified by what they are (closure numbers shift when one is added before them):
            # a closure no listed one accounts for is new code (engine/inline.desugar_combinators)
            from engine import inline as _inline
            closures.append([b["path"].rsplit("::{closure#", 1)[0], _inline.closure_signature(b, allraws)])
        if b["kind"] in ("Fn", "AssocFn"):
            paths.append(b["path"])
            # what identifies the function when only its name or module changes: crate, signature, impl type, trait
            meta[b["path"]] = [c, b.get("sig"), b.get("impl_self"), b.get("impl_trait") or b.get("trait_default_of")]
head = subprocess.check_output(["git", "-C", facts.REPO, "rev-parse", "--short", "HEAD"], text=True).strip()
dirty = subprocess.check_output(["git", "-C", facts.REPO, "status", "--porcelain"], text=True).strip()
if dirty:
    sys.exit("refusing: /repo working tree is not clean")
out = os.path.join(facts.VERIF, "tables", "reference_functions.json")
json.dump({"reference_commit": head, "count": len(paths), "paths": sorted(paths), "closures": sorted(closures, key=str), "meta": meta}, open(out, "w"), indent=0)
print("wrote", out, len(paths), "functions at", head)
