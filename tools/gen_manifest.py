#!/usr/bin/env python3
"""Generate MANIFEST.json from the per-property table below; a property is claimed only if its rule module exists."""
import json, os, sys
HERE = os.path.dirname(os.path.dirname(os.path.abspath(__file__)))
sys.path.insert(0, HERE)
import importlib

PROPS = ["C%02d" % i for i in range(1, 21)]
checks = []
na = []
for p in PROPS:
    path = os.path.join(HERE, "rules", "props", p + ".py")
    if not os.path.exists(path):
        na.append({"property_id": p, "reason": "no static rule implemented for this property in this revision of /verif (see DESIGN.md section 5 %s for the planned structural clauses); nothing is claimed" % p})
        continue
    m = importlib.import_module("rules.props." + p)
    if getattr(m, "NOT_APPLICABLE", None):
        na.append({"property_id": p, "reason": m.NOT_APPLICABLE})
        continue
    checks.append({
        "property_id": p,
        "quick_cmd": "./check %s --tier quick" % p,
        "thorough_cmd": "./check %s --tier thorough" % p,
        "evidence_file": "/verif/evidence/%s.json" % p,
        "replay_cmd_template": "./check --explain {path}",
        "engine": "hn-facts+rules",
        "technique": getattr(m, "TECHNIQUE", "static analysis: custom MIR-level rules (rustc_private fact driver + dataflow/control-dependence rule engine)"),
        "level_claimed": {
            "category": "other",
            "text": getattr(m, "LEVEL_TEXT", "Static decision of the named structural clauses (necessary conditions of the property) for all inputs and paths, "
                            "from the type-checked MIR of /repo's current tree; the behaviour as a whole is not decided. " + m.EXPLANATION),
            "design_ref": "DESIGN.md section 5 " + p,
        },
        "level_note": "Trusted base: " + "; ".join(getattr(m, "TRUSTED", [])) + ". Declined clauses: " + "; ".join(getattr(m, "DECLINED", [])),
    })
man = {
    "version": 1,
    "setup_cmd": "cd /verif/driver && cargo +nightly build --release --offline && test -x target/release/hn-facts",
    "hooks": {
        "guard": "huginn_net_verif",
        "enable": "none needed: static analysis reads /repo as is (facts extracted with RUSTC_WORKSPACE_WRAPPER=/verif/driver/target/release/hn-facts cargo +nightly check --workspace --lib)",
        "baseline_off_cmd": "cd /repo && cargo test --workspace --no-fail-fast --offline",
        "source_commits": [],
        "add_only": True,
    },
    "engines": [
        {"name": "hn-facts", "path": "/verif/driver", "serves_properties": [c["property_id"] for c in checks],
         "kind_free_text": "rustc_private driver exporting MIR/ADT/impl/const facts of the five workspace crates as JSON"},
        {"name": "rules", "path": "/verif/rules", "serves_properties": [c["property_id"] for c in checks],
         "kind_free_text": "Python rule engine: CFG, dominators, control dependence, origin slices, decision tables, interval/length abstract interpretation"},
    ],
    "checks": checks,
    "not_applicable": na,
    "notes": "Every check re-extracts facts from /repo's current working tree (content-hash cache in /verif/.cache). "
             "Known genuine defects are pinned in /verif/KNOWN_FINDINGS.json by (rule, instance key) and printed as KNOWN-FINDING lines.",
}
with open(os.path.join(HERE, "MANIFEST.json"), "w") as fh:
    json.dump(man, fh, indent=1)
print("claimed:", [c["property_id"] for c in checks])
print("not_applicable:", [x["property_id"] for x in na])
