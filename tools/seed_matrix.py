#!/usr/bin/env python3
"""Evaluate every seeded change against all 20 checks (statically) and record the catching rules in seeded/<id>/<n>/meta.json.
Also prints a markdown table for DESIGN.md."""
import concurrent.futures as cf
import json
import os
import subprocess
import sys

HERE = os.path.dirname(os.path.dirname(os.path.abspath(__file__)))


def one(args):
    prop, n = args
    d = os.path.join(HERE, "seeded", prop, n)
    p = subprocess.run([sys.executable, os.path.join(HERE, "tools", "seed_eval.py"), os.path.join(d, "patch.diff")],
                       stdout=subprocess.PIPE, stderr=subprocess.PIPE, text=True)
    try:
        out = json.loads(p.stdout[p.stdout.index("{"):])
    except Exception:
        out = {"error": (p.stdout + p.stderr)[-300:]}
    return prop, n, out


def main():
    jobs = []
    for prop in sorted(x for x in os.listdir(os.path.join(HERE, "seeded")) if os.path.isdir(os.path.join(HERE, "seeded", x))):
        for n in sorted(os.listdir(os.path.join(HERE, "seeded", prop))):
            if os.path.exists(os.path.join(HERE, "seeded", prop, n, "patch.diff")):
                jobs.append((prop, n))
    rows = []
    with cf.ThreadPoolExecutor(max_workers=int(os.environ.get("JOBS", "6"))) as ex:
        for prop, n, out in ex.map(one, jobs):
            mp = os.path.join(HERE, "seeded", prop, n, "meta.json")
            m = json.load(open(mp))
            caught = []
            if "error" not in out:
                for p2, vs in sorted(out.items()):
                    for v in vs:
                        caught.append({"property": p2, "rule": v["rule"], "key": v["key"]})
            m["caught_by"] = caught
            m["caught_by_own_property"] = any(c["property"] == prop for c in caught)
            m["status"] = "caught" if m["caught_by_own_property"] else ("caught-by-sibling" if caught else "missed")
            json.dump(m, open(mp, "w"), indent=1)
            own = sorted({"%s" % c["rule"] for c in caught if c["property"] == prop})
            others = sorted({c["property"] for c in caught if c["property"] != prop})
            rows.append("| %s/%s | %s | %s | %s | %s |" % (prop, n, (m.get("function") or "")[:60].replace("|", "/"), (m.get("mechanism") or m.get("summary") or "")[:90].replace("|", "/"),
                                                     ", ".join(own) or "-", ", ".join(others) or "-"))
            print(rows[-1], flush=True)
    open(os.path.join(HERE, "seeded", "MATRIX.md"), "w").write(
        "| seed | function | mechanism | caught by own check (rules) | also reported by |\n|---|---|---|---|---|\n" + "\n".join(rows) + "\n")


if __name__ == "__main__":
    main()
