#!/bin/bash
# Run the repository's baseline suite (guard off) and summarise; expected: 464 passed, 1 failed (always_fail golden pcap).
cd /repo && cargo test --workspace --no-fail-fast --offline 2>&1 | awk '/^test result/ {p+=$4; f+=$6} /^test .* FAILED/ {print} END {print "passed=" p " failed=" f}'
