#!/usr/bin/env python3
"""Run all (or some) property checks statically against one patch applied to a scratch copy of /repo.
usage: seed_eval.py <patch> [Cxx ...]   -> prints JSON {prop: [new violations]}"""
import importlib
import json
import os
import shutil
import subprocess
import sys
import tempfile

HERE = os.path.dirname(os.path.dirname(os.path.abspath(__file__)))
sys.path.insert(0, HERE)
from rules.engine import facts as F, report as R  # noqa: E402


def evaluate(patch, props=None, repo="/repo"):
    props = props or ["C%02d" % i for i in range(1, 21)]
    base = tempfile.mkdtemp(prefix="hnseed-")
    out = {}
    try:
        wt = os.path.join(base, "wt")
        subprocess.check_call(["rsync", "-a", "--exclude", "/target", "--exclude", "/.git", repo + "/", wt + "/"])
        p = subprocess.run(["patch", "-p1", "--batch", "--no-backup-if-mismatch", "-s", "-i", os.path.abspath(patch)], cwd=wt,
                           stdout=subprocess.PIPE, stderr=subprocess.STDOUT, text=True)
        if p.returncode != 0:
            return {"error": "patch does not apply: " + p.stdout[-300:]}
        os.environ["HN_SCRATCH"] = base
        try:
            P = F.load_program(wt, os.environ.get("HN_EVAL_CACHE") or os.path.join(base, "cache"))
        except F.FactsError as e:
            return {"error": "does not build: " + str(e)[-800:]}
        known = {(k["property"], k["rule"], k["key"]) for k in R.load_known().get("findings", [])}
        for prop in props:
            mod = importlib.import_module("rules.props." + prop)
            ctx = R.Ctx(prop, "quick", None, 0)
            ctx.program = P
            try:
                R.run_rules(mod, ctx)
            except F.AnchorMissing as e:
                ctx.fail("anchors", "missing", "cannot decide: " + str(e), kind="cannot-decide")
            except Exception:
                import traceback
                ctx.fail("engine", "internal-error", traceback.format_exc()[-1200:], kind="cannot-decide")
            new = [v for v in ctx.violations if (prop, v["rule"], v["key"]) not in known]
            if new:
                out[prop] = [{"rule": v["rule"], "key": v["key"], "msg": v["msg"][:400], "loc": v["loc"]} for v in new]
        return out
    finally:
        shutil.rmtree(base, ignore_errors=True)


if __name__ == "__main__":
    r = evaluate(sys.argv[1], [p.upper() for p in sys.argv[2:]] or None)
    print(json.dumps(r, indent=1))
