#!/usr/bin/env python3
"""Debug helper: print the exported MIR of bodies whose path contains the given fragment."""
import os
import sys

sys.path.insert(0, os.path.dirname(os.path.dirname(os.path.abspath(__file__))))
from rules.engine import facts as F  # noqa: E402


def pl(p):
    s = "_%d" % p["l"]
    for x in p["pr"]:
        if x == "*":
            s = "(*%s)" % s
        elif "f" in x:
            s += ".%s" % x.get("n", x["f"])
        elif "i" in x:
            s += "[_%d]" % x["i"]
        elif "ci" in x:
            s += "[%s%d of %d]" % ("-" if x["from_end"] else "", x["ci"], x["min"])
        elif "sub" in x:
            s += "[%d..%s%d]" % (x["sub"][0], "-" if x["from_end"] else "", x["sub"][1])
        elif "dc" in x:
            s = "(%s as %s)" % (s, x["dc"])
    return s


def op(o):
    if "k" in o:
        k = o["k"]
        v = k.get("v")
        nm = k.get("named")
        if v is None:
            return "const ?%s" % (":" + nm if nm else "")
        for key in ("int", "bool", "str", "char"):
            if key in v:
                return "const %r%s" % (v[key], (" /*%s*/" % nm.split("::")[-1]) if nm else "")
        if "fn" in v:
            return "fn " + v["fn"]
        if "zst" in v:
            return "zst<%s>" % v["zst"][:40]
        if "bytes" in v or "ref_bytes" in v:
            return "const b%r" % bytes(v.get("bytes") or v.get("ref_bytes"))
        if "fbits" in v:
            from rules.engine.terms import float_of
            return "const %r" % float_of(("f", v["fbits"], v["fsize"]))
        return "const %s" % str(v)[:60]
    if "c" in o:
        return pl(o["c"])
    return "move " + pl(o["m"])


def rv(r):
    k = r["k"]
    if k == "use":
        return op(r["o"])
    if k == "ref":
        return "&%s%s" % ("mut " if r["bk"] == "mut" else "", pl(r["p"]))
    if k == "binop":
        return "%s(%s, %s)" % (r["op"], op(r["a"]), op(r["b"]))
    if k == "unop":
        return "%s(%s)" % (r["op"], op(r["o"]))
    if k == "cast":
        return "%s as %s (%s)" % (op(r["o"]), r["ty"], r["ck"])
    if k == "agg":
        if r["ak"] == "adt":
            return "%s::%s{%s}" % (r["path"], r["variant"], ", ".join(op(x) for x in r["ops"]))
        return "%s%s(%s)" % (r["ak"], (":" + r["path"]) if r.get("path") else "", ", ".join(op(x) for x in r["ops"]))
    if k == "discr":
        return "discriminant(%s)" % pl(r["p"])
    return k + ":" + r.get("dbg", "")[:60]


def dump(b):
    print("fn %s  [%s:%d-%d] args=%d" % (b.path, b.file, b.lo, b.hi, b.arg_count))
    for i, l in enumerate(b.locals):
        if l.get("name"):
            print("   let _%d: %s  // %s" % (i, l["ty"], l["name"]))
    for i, blk in enumerate(b.blocks):
        if i not in b.reachable:
            continue
        print("  bb%d:" % i)
        for s in blk["s"]:
            if s["k"] == "assign":
                print("    %s = %s   // L%d" % (pl(s["p"]), rv(s["r"]), s["line"]))
            else:
                print("    setdiscr %s = %d" % (pl(s["p"]), s["vi"]))
        t = blk["t"]
        k = t["k"]
        exp = (" [exp:%s]" % t["span"]["exp"]) if "exp" in t["span"] else ""
        if k == "call":
            print("    %s = %s(%s) -> %s   // L%d%s" % (pl(t["dest"]), t.get("res") or t.get("decl"), ", ".join(op(a) for a in t["args"]),
                                               "bb%s" % t["target"] if t["target"] is not None else "!", t["span"]["lo"], exp))
        elif k == "switch":
            print("    switch(%s: %s) %s else bb%d   // L%d" % (op(t["discr"]), t["ty"], ["%d:bb%d" % (v, x) for v, x in t["arms"]], t["otherwise"], t["span"]["lo"]))
        elif k == "assert":
            print("    assert(%s == %s, %s %s) -> bb%d   // L%d" % (op(t["cond"]), t["expected"], t["kind"], [op(x) for x in t["ops"]], t["target"], t["span"]["lo"]))
        elif k in ("goto", "drop"):
            print("    %s -> bb%d" % (k + ("(%s)" % pl(t["p"]) if k == "drop" else ""), t["target"]))
        else:
            print("    %s" % k)


if __name__ == "__main__":
    P = F.load_program()
    frag = sys.argv[1]
    n = 0
    for p, b in P.bodies.items():
        if frag in p:
            if len(sys.argv) > 2 and sys.argv[2] == "-l":
                print(p)
            else:
                dump(b)
                print()
            n += 1
    print("%d bodies" % n, file=sys.stderr)
