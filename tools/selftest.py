#!/usr/bin/env python3
"""Checker self-validation: run the rules of a property against scratch copies of /repo's working tree with one
patch applied each.

  must-fire   variants (expect = "fire"):   the check must report a new violation (optionally of a named rule)
  must-silent variants (expect = "silent"): behaviour-preserving refactors; the check must stay clean

Variants come from /verif/variants/index.json (hand written) and from /verif/seeded/<id>/<n>/ (changes produced by
independent sub-agents that only saw the property text).  Every scratch copy lives outside /repo and /verif and is
removed, with its build output and fact cache, as soon as its verdict is known.  Nothing here executes huginn-net
code: each variant is decided by the same static rules as the real tree.

usage: selftest.py [Cxx ...] [--jobs N] [--only NAME] [--json OUT]
"""
import argparse
import concurrent.futures as cf
import importlib
import json
import os
import shutil
import subprocess
import sys
import tempfile
import time

HERE = os.path.dirname(os.path.dirname(os.path.abspath(__file__)))
sys.path.insert(0, HERE)

REPO = os.environ.get("HN_REPO", "/repo")


def variants_for(prop):
    out = []
    idx = os.path.join(HERE, "variants", "index.json")
    if os.path.exists(idx):
        for v in json.load(open(idx))["variants"]:
            # entries recorded as known false alarms document a refactor the checks cannot follow: they are not exercised
            if prop in v["properties"] and v["expect"] in ("fire", "silent"):
                out.append({"name": v["name"], "patch": os.path.join(HERE, "variants", v["patch"]),
                            "expect": v["expect"], "rule": (v.get("rule") or {}).get(prop) if isinstance(v.get("rule"), dict) else v.get("rule"),
                            "origin": "hand", "note": v.get("note", "")})
    sd = os.path.join(HERE, "seeded", prop)
    if os.path.isdir(sd):
        for n in sorted(os.listdir(sd)):
            mp = os.path.join(sd, n, "meta.json")
            pp = os.path.join(sd, n, "patch.diff")
            if os.path.exists(mp) and os.path.exists(pp):
                m = json.load(open(mp))
                if m.get("expect", "fire") in ("fire", "silent"):
                    out.append({"name": "seeded/%s/%s" % (prop, n), "patch": pp, "expect": m.get("expect", "fire"),
                                "rule": m.get("caught_by_rule"), "origin": "seeded", "note": m.get("summary", "")})
    return out


def run_variant(prop, v):
    """child process body: returns a dict"""
    t0 = time.time()
    base = tempfile.mkdtemp(prefix="hnvar-", dir=os.environ.get("HN_SCRATCH") or None)
    res = {"name": v["name"], "expect": v["expect"], "origin": v["origin"]}
    try:
        wt = os.path.join(base, "wt")
        subprocess.check_call(["rsync", "-a", "--exclude", "/target", "--exclude", "/.git", REPO + "/", wt + "/"])
        p = subprocess.run(["patch", "-p1", "--batch", "--no-backup-if-mismatch", "-s", "-i", v["patch"]], cwd=wt,
                           stdout=subprocess.PIPE, stderr=subprocess.STDOUT, text=True)
        if p.returncode != 0:
            res.update(status="skipped", detail="patch does not apply to the current tree: " + p.stdout[-300:])
            return res
        env = dict(os.environ, HN_SCRATCH=base)
        code = (
            "import sys, json; sys.path.insert(0, %r)\n"
            "from rules.engine import facts as F, report as R\n"
            "import importlib\n"
            "mod = importlib.import_module('rules.props.%s')\n"
            "ctx = R.Ctx(%r, 'quick', None, 0)\n"
            "try:\n"
            "    ctx.program = F.load_program(%r, %r)\n"
            "    R.run_rules(mod, ctx)\n"
            "except F.FactsError as e:\n"
            "    print(json.dumps({'error': 'facts: ' + str(e)[-1500:]})); sys.exit(0)\n"
            "except F.AnchorMissing as e:\n"
            "    ctx.fail('anchors', 'missing', 'cannot decide: ' + str(e), kind='cannot-decide')\n"
            "except Exception as e:\n"
            "    import traceback; ctx.fail('engine', 'internal-error', traceback.format_exc()[-1500:], kind='cannot-decide')\n"
            "known = {(k['property'], k['rule'], k['key']) for k in R.load_known().get('findings', [])}\n"
            "new = [v for v in ctx.violations if (ctx.prop, v['rule'], v['key']) not in known]\n"
            "print(json.dumps({'new': [{'rule': v['rule'], 'key': v['key'], 'msg': v['msg'][:300], 'loc': v['loc'], 'kind': v.get('kind')} for v in new], 'instances': len(ctx.instances)}))\n"
        ) % (HERE, prop, prop, wt, os.path.join(base, "cache"))
        p = subprocess.run([sys.executable, "-c", code], env=env, stdout=subprocess.PIPE, stderr=subprocess.PIPE, text=True)
        try:
            out = json.loads(p.stdout.strip().splitlines()[-1])
        except Exception:
            res.update(status="error", detail=(p.stdout + p.stderr)[-600:])
            return res
        if "error" in out:
            # a variant that does not compile is not a valid variant
            res.update(status="skipped", detail="variant does not build: " + out["error"][-400:])
            return res
        new = out["new"]
        res["reported"] = [{"rule": n["rule"], "key": n["key"], "loc": n["loc"]} for n in new][:6]
        res["instances"] = out["instances"]
        if v["expect"] == "fire":
            hit = [n for n in new if not v.get("rule") or n["rule"] == v["rule"]]
            res["status"] = "ok" if hit else "MISS"
            if not hit:
                res["detail"] = "no new violation reported" if not new else "violations reported, but not by rule %s" % v["rule"]
        else:
            res["status"] = "ok" if not new else "FALSE-ALARM"
            if new:
                res["detail"] = "; ".join("%s %s: %s" % (n["rule"], n["key"], n["msg"][:160]) for n in new[:3])
        return res
    finally:
        res["wall_s"] = round(time.time() - t0, 1)
        shutil.rmtree(base, ignore_errors=True)


def selftest(prop, jobs=4, only=None):
    vs = [v for v in variants_for(prop) if not only or only in v["name"]]
    results = []
    with cf.ThreadPoolExecutor(max_workers=jobs) as ex:
        for r in ex.map(lambda v: run_variant(prop, v), vs):
            results.append(r)
    return results


def main():
    ap = argparse.ArgumentParser()
    ap.add_argument("props", nargs="*")
    ap.add_argument("--jobs", type=int, default=4)
    ap.add_argument("--only")
    ap.add_argument("--json")
    a = ap.parse_args()
    props = [p.upper() for p in a.props] or ["C%02d" % i for i in range(1, 21)]
    allr = {}
    bad = 0
    for p in props:
        rs = selftest(p, a.jobs, a.only)
        allr[p] = rs
        for r in rs:
            print("%s %-11s %-7s %-48s %s %s" % (p, r["status"], r["expect"], r["name"], ",".join(sorted({x["rule"] for x in r.get("reported", [])})), r.get("detail", "")[:200]))
            if r["status"] in ("MISS", "FALSE-ALARM", "error"):
                bad += 1
    if a.json:
        json.dump(allr, open(a.json, "w"), indent=1)
    print("selftest: %d variants, %d not as expected" % (sum(len(v) for v in allr.values()), bad))
    return 1 if bad else 0


if __name__ == "__main__":
    sys.exit(main())
