#!/usr/bin/env python3
"""add_variants.py <json list of [name, [props], note]> : register hand-written variants in variants/index.json"""
import json, sys
new = json.load(open(sys.argv[1]))
p = '/verif/variants/index.json'
d = json.load(open(p))
have = {v['name'] for v in d['variants']}
for name, props, note in new:
    if name in have:
        continue
    d['variants'].append({"name": name, "patch": name + ".patch", "expect": "silent" if name.startswith("silent/") else "fire", "properties": props, "note": note})
json.dump(d, open(p, 'w'), indent=1)
print(len(d['variants']), "variants")
