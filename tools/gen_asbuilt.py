#!/usr/bin/env python3
"""Regenerate the machine-written part of DESIGN.md (between the ASBUILT markers): per property, the rule list of the module
docstring and, from the last evidence file, the number of instances per rule id with one sample each."""
import ast
import json
import os
import re

HERE = os.path.dirname(os.path.dirname(os.path.abspath(__file__)))
out = []
for i in range(1, 21):
    pid = "C%02d" % i
    src = open(os.path.join(HERE, "rules", "props", pid + ".py")).read()
    doc = ast.get_docstring(ast.parse(src)) or ""
    ev = json.load(open(os.path.join(HERE, "evidence", pid + ".json")))
    cov = ev["coverage"]
    out.append("#### %s" % doc.splitlines()[0])
    out.append("")
    out.append("```")
    out.extend(doc.splitlines()[1:])
    out.append("```")
    out.append("")
    out.append("Last run on /repo: %d rule instances, %d ok, %d known findings, %d new violations. Instances per rule id:" % (
        cov["obligations"], cov["discharged"], len(cov.get("known_findings_hit", [])), len(cov.get("new_violations", []))))
    out.append("")
    out.append("| rule | instances | fail |")
    out.append("|---|---|---|")
    for r, d in sorted(cov["per_rule"].items()):
        out.append("| %s | %d | %d |" % (r, d["instances"], d["fail"]))
    out.append("")
p = os.path.join(HERE, "DESIGN.md")
s = open(p).read()
a, b = "<!-- ASBUILT:BEGIN -->", "<!-- ASBUILT:END -->"
block = a + "\n" + "\n".join(out) + "\n" + b
if a in s:
    s = re.sub(re.escape(a) + ".*?" + re.escape(b), lambda m: block, s, flags=re.S)
else:
    s += "\n" + block + "\n"
open(p, "w").write(s)
print("as-built block: %d lines" % len(out))
