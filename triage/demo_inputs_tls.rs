// one-off triage demonstrations for the TLS crate (drop into huginn-net-tls/tests/)
#[test]
fn d16_unknown_tls_version_and_empty_lists() {
    use huginn_net_tls::tls_process::determine_tls_version;
    let v = determine_tls_version(&tls_parser::TlsVersion(0x0305), &[]);
    let sig = huginn_net_tls::tls::Signature { version: huginn_net_tls::tls::TlsVersion::V1_2, cipher_suites: vec![], extensions: vec![], elliptic_curves: vec![],
        elliptic_curve_point_formats: vec![], signature_algorithms: vec![], sni: None, alpn: None };
    println!("D16 legacy 0x0305 -> {:?} (token {}); empty lists JA4 = {}", v, v, sig.generate_ja4().full.value());
    let v2 = determine_tls_version(&tls_parser::TlsVersion(0x0303), &[43]);
    println!("D16b supported_versions present (contents ignored) -> {:?}", v2);
}

