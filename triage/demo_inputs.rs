use huginn_net_db::db_matching_trait::{DatabaseSignature, FingerprintDb};
use huginn_net_db::observable_signals::HttpRequestObservation;
use huginn_net_db::{http, Database};
use std::str::FromStr;

fn eth_ipv4_tcp(src: [u8; 4], dst: [u8; 4], sp: u16, dp: u16, flags: u8, opts: &[u8], payload: &[u8]) -> Vec<u8> {
    let mut p = vec![0u8; 12];
    p.extend_from_slice(&[0x08, 0x00]);
    let doff = 5 + (opts.len() + 3) / 4;
    let tcp_len = doff * 4 + payload.len();
    let total = 20 + tcp_len;
    let mut ip = vec![0x45, 0, (total >> 8) as u8, total as u8, 0, 1, 0x40, 0, 64, 6, 0, 0];
    ip.extend_from_slice(&src);
    ip.extend_from_slice(&dst);
    p.extend_from_slice(&ip);
    let mut tcp = vec![(sp >> 8) as u8, sp as u8, (dp >> 8) as u8, dp as u8, 0, 0, 0, 1, 0, 0, 0, 0, (doff as u8) << 4, flags, 0xff, 0xff, 0, 0, 0, 0];
    tcp.extend_from_slice(opts);
    while tcp.len() < doff * 4 { tcp.push(0); }
    tcp.extend_from_slice(payload);
    p.extend_from_slice(&tcp);
    p
}

#[test]
fn d1_wscale_len2_panics() {
    let pkt = eth_ipv4_tcp([10, 0, 0, 1], [10, 0, 0, 2], 40000, 80, 0x02, &[3, 2, 1, 1], &[]);
    let r = std::panic::catch_unwind(|| {
        let mut a = huginn_net::HuginnNet::new(None, 10, Some(huginn_net::AnalysisConfig { http_enabled: false, tcp_enabled: true, tls_enabled: false, matcher_enabled: false })).unwrap();
        a.analyze_tcp(&pkt);
    });
    println!("D1 wscale len=2 panicked: {}", r.is_err());
}

#[test]
fn d2_http_any_version_index() {
    let db = Database::from_str("[http:request]\nlabel = s:!:X:\nsig = *:Host,User-Agent:::\n").unwrap();
    let obs = HttpRequestObservation { version: http::Version::V20, horder: vec![http::Header::new("Host"), http::Header::new("User-Agent")], habsent: vec![], expsw: "".into() };
    let sig = &db.http_request.entries[0].1[0];
    println!("D2 full-scan distance = {:?}; indexed lookup found = {}", sig.calculate_distance(&obs), db.http_request.find_best_match(&obs).is_some());
}

#[test]
fn d3_http_hash_direction() {
    let mut diff = 0;
    for i in 0..50u16 {
        let a = eth_ipv4_tcp([10, 0, 0, 1], [10, 0, 0, 2], 40000 + i, 80, 0x18, &[], b"GET / HTTP/1.1\r\n\r\n");
        let b = eth_ipv4_tcp([10, 0, 0, 2], [10, 0, 0, 1], 80, 40000 + i, 0x18, &[], b"HTTP/1.1 200 OK\r\n\r\n");
        if huginn_net_http::packet_hash::hash_flow(&a, 4) != huginn_net_http::packet_hash::hash_flow(&b, 4) { diff += 1; }
    }
    println!("D3 connections (of 50) whose two directions go to different workers (n=4): {diff}");
}

#[test]
fn d4_empty_range_port0() {
    let f = huginn_net_tcp::PortFilter::new().destination_range(0..0);
    println!("D4 empty range 0..0 matches dst port 0: {}", f.matches(1234, 0));
}

#[test]
fn d5_expsw() {
    let db = Database::from_str("[http:request]\nlabel = s:!:curl:\nsig = *:Host,User-Agent:::curl/\n").unwrap();
    let obs = HttpRequestObservation { version: http::Version::V11, horder: vec![http::Header::new("Host"), http::Header::new("User-Agent")], habsent: vec![], expsw: "curl/7.24.0 (x86_64)".into() };
    let sig = &db.http_request.entries[0].1[0];
    println!("D5 UA containing expected token: distance = {:?}", sig.calculate_distance(&obs));
}

#[test]
fn d6_tls_reader_growth() {
    let mut r = huginn_net_tls::TlsClientHelloReader::new();
    // ServerHello-like handshake record (type 2), then application data forever
    let _ = r.add_bytes(&[0x16, 0x03, 0x03, 0x00, 0x04, 0x02, 0x00, 0x00, 0x00]);
    let before = r.buffer_len();
    for _ in 0..1000 { let _ = r.add_bytes(&[0x17; 1400]); }
    println!("D6 reader buffer before={} after 1000 app-data segments={}", before, r.buffer_len());
}

#[test]
fn d7_http2_lowercase_optional() {
    use huginn_net_http::http_common::{HeaderSource, HttpHeader};
    let _ = (HeaderSource::Http2Header, HttpHeader::new("cookie", Some("a=b"), 0, HeaderSource::Http2Header));
}

#[test]
fn d2b_debug() {
    let db = Database::from_str("[http:request]\nlabel = s:!:X:\nsig = *:Host,User-Agent:::\n").unwrap();
    let s = format!("{:?}", db.http_request);
    let i = s.find("index").unwrap();
    println!("D2b {}", &s[i..]);
    for v in [http::Version::V10, http::Version::V11, http::Version::V20, http::Version::V30] {
        let obs = HttpRequestObservation { version: v, horder: vec![http::Header::new("Host"), http::Header::new("User-Agent")], habsent: vec![], expsw: "".into() };
        println!("D2b {:?} found={}", v, db.http_request.find_best_match(&obs).is_some());
    }
}

fn cfg(http: bool, tcp: bool, m: bool) -> huginn_net::AnalysisConfig {
    huginn_net::AnalysisConfig { http_enabled: http, tcp_enabled: tcp, tls_enabled: false, matcher_enabled: m }
}

fn seg(src: [u8; 4], dst: [u8; 4], sp: u16, dp: u16, flags: u8, seq: u32, payload: &[u8]) -> Vec<u8> {
    let mut p = eth_ipv4_tcp(src, dst, sp, dp, flags, &[], payload);
    let off = 14 + 20 + 4;
    p[off..off + 4].copy_from_slice(&seq.to_be_bytes());
    p
}

#[test]
fn d8_body_dependence() {
    let p = huginn_net_http::http_process::HttpProcessors::new();
    let head = b"HTTP/1.1 200 OK\r\nServer: nginx\r\nContent-Type: image/png\r\n\r\n".to_vec();
    let mut with_body = head.clone();
    with_body.extend_from_slice(&[0x89, 0x50, 0x4e, 0x47, 0xff, 0xfe, 0x00]);
    println!("D8 head only parsed={} ; head+binary body parsed={}", p.parse_response(&head).is_some(), p.parse_response(&with_body).is_some());
}

#[test]
fn d9_seq_wrap() {
    let c = [10, 0, 0, 1]; let s = [10, 0, 0, 2];
    for isn in [1000u32, 0xFFFF_FFF0u32] {
        let mut a = huginn_net::HuginnNet::new(None, 10, Some(cfg(true, false, false))).unwrap();
        let req = b"GET /index.html HTTP/1.1\r\nHost: example.org\r\nUser-Agent: x\r\n\r\n";
        let (p1, p2) = req.split_at(20);
        a.analyze_tcp(&seg(c, s, 40000, 80, 0x02, isn, &[]));
        let s1 = isn.wrapping_add(1);
        let r1 = a.analyze_tcp(&seg(c, s, 40000, 80, 0x18, s1, p1));
        let r2 = a.analyze_tcp(&seg(c, s, 40000, 80, 0x18, s1.wrapping_add(20), p2));
        println!("D9 isn={:#x} request reported={}", isn, r1.http_request.is_some() || r2.http_request.is_some());
    }
}

fn h2_frame(ty: u8, flags: u8, stream: u32, payload: &[u8]) -> Vec<u8> {
    let mut f = vec![0, (payload.len() >> 8) as u8, payload.len() as u8, ty, flags];
    f.extend_from_slice(&stream.to_be_bytes());
    f.extend_from_slice(payload);
    f
}

#[test]
fn d10_hpack_shared() {
    let pre = b"PRI * HTTP/2.0\r\n\r\nSM\r\n\r\n".to_vec();
    let mut a = pre.clone();
    a.extend(h2_frame(4, 0, 0, &[]));
    a.extend(h2_frame(1, 0x05, 1, &[0x82, 0x84, 0x86, 0x40, 0x03, b'x', b'-', b'a', 0x01, b'1']));
    let mut b = pre.clone();
    b.extend(h2_frame(4, 0, 0, &[]));
    b.extend(h2_frame(1, 0x05, 1, &[0x82, 0x84, 0x86, 0xBE]));
    let fresh = huginn_net_http::http_process::HttpProcessors::new();
    let alone = fresh.parse_request(&b);
    let shared = huginn_net_http::http_process::HttpProcessors::new();
    let _ = shared.parse_request(&a);
    let after = shared.parse_request(&b);
    println!("D10 B alone parsed={} ; B after A parsed={} headers={:?}", alone.is_some(), after.is_some(), after.map(|r| r.headers.iter().map(|h| format!("{}={:?}", h.name, h.value)).collect::<Vec<_>>()));
}

#[test]
fn d11_padded_headers() {
    let pre = b"PRI * HTTP/2.0\r\n\r\nSM\r\n\r\n".to_vec();
    let mut plain = pre.clone();
    plain.extend(h2_frame(1, 0x05, 1, &[0x82, 0x84, 0x86]));
    let mut padded = pre.clone();
    padded.extend(h2_frame(1, 0x0D, 1, &[0x02, 0x82, 0x84, 0x86, 0x00, 0x00]));
    let mut prio = pre.clone();
    prio.extend(h2_frame(1, 0x25, 1, &[0x00, 0x00, 0x00, 0x00, 0x0f, 0x82, 0x84, 0x86]));
    for (n, d) in [("plain", plain), ("padded", padded), ("priority", prio)] {
        let p = huginn_net_http::http_process::HttpProcessors::new();
        let r = p.parse_request(&d);
        println!("D11 {n}: parsed={} method={:?} uri={:?}", r.is_some(), r.as_ref().and_then(|x| x.method.clone()), r.as_ref().and_then(|x| x.uri.clone()));
    }
}

#[test]
fn d12_windows_xp_dead() {
    let db = Database::load_default().unwrap();
    let mut a = huginn_net::HuginnNet::new(Some(&db), 10, Some(cfg(false, true, true))).unwrap();
    // Windows XP: *:128:0:*:16384,0:mss,nop,nop,sok:df,id+:0
    let mut p = eth_ipv4_tcp([10, 0, 0, 1], [10, 0, 0, 2], 40000, 80, 0x02, &[2, 4, 0x05, 0xb4, 1, 1, 4, 2], &[]);
    p[14 + 8] = 128; // ttl
    p[14 + 4] = 0x12; p[14 + 5] = 0x34; // id
    let w = 14 + 20 + 14; p[w] = 0x40; p[w + 1] = 0x00; // window 16384
    p[14 + 20 + 4..14 + 20 + 8].copy_from_slice(&7u32.to_be_bytes());
    let r = a.analyze_tcp(&p);
    let s = r.tcp_syn.unwrap();
    println!("D12 sig={} matched={:?} quality={:?}", s.sig.matching, s.os_matched.os.map(|o| format!("{} {:?}", o.name, o.kind)), s.os_matched.quality);
}

// ---- demonstrations added during the build phase (run against the pinned commit bb3278d) ----

#[test]
fn d13_http_flow_not_removed_when_server_completes() {
    let c = [10, 0, 0, 1]; let s = [10, 0, 0, 2];
    let mut a = huginn_net::HuginnNet::new(None, 10, Some(cfg(true, false, false))).unwrap();
    let req = b"GET / HTTP/1.1\r\nHost: example.org\r\nUser-Agent: x\r\n\r\n";
    let resp = b"HTTP/1.1 200 OK\r\nServer: nginx\r\nContent-Length: 0\r\n\r\n";
    // connection 1
    a.analyze_tcp(&seg(c, s, 40000, 80, 0x02, 1000, &[]));
    let r1 = a.analyze_tcp(&seg(c, s, 40000, 80, 0x18, 1001, req));
    let r2 = a.analyze_tcp(&seg(s, c, 80, 40000, 0x18, 5001, resp));
    // connection 2 re-uses the same 4-tuple within the 60 s TTL
    a.analyze_tcp(&seg(c, s, 40000, 80, 0x02, 9000, &[]));
    let r3 = a.analyze_tcp(&seg(c, s, 40000, 80, 0x18, 9001, req));
    println!("D13 conn1 request={} response={} ; conn2 (same 4-tuple) request reported={}", r1.http_request.is_some(), r2.http_response.is_some(), r3.http_request.is_some());
}

#[test]
fn d14_ttl_bad_signature_dead() {
    use huginn_net_db::tcp::Ttl;
    println!("D14 Distance(54,10) vs Bad(64) = {:?}; Value(200) vs Bad(255) = {:?}; Bad(0) vs Bad(64) = {:?}",
        Ttl::Distance(54, 10).distance_ttl(&Ttl::Bad(64)), Ttl::Value(200).distance_ttl(&Ttl::Bad(255)), Ttl::Bad(0).distance_ttl(&Ttl::Bad(64)));
    use huginn_net_db::tcp::WindowSize;
    println!("D14b Mss(8) vs Value(8192) = {:?}; Mtu(2) vs Value(3000) = {:?}; Mod(4096) vs Value(16384) = {:?}",
        WindowSize::Mss(8).distance_window_size(&WindowSize::Value(8192), Some(1024)), WindowSize::Mtu(2).distance_window_size(&WindowSize::Value(3000), Some(1460)),
        WindowSize::Mod(4096).distance_window_size(&WindowSize::Value(16384), Some(1460)));
}

#[test]
fn d15_http_worker_counts_processing_error_as_drop() {
    let (tx, _rx) = std::sync::mpsc::channel();
    let pool = huginn_net_http::WorkerPool::new(1, 16, 1, 10, tx, None, 100, None).unwrap();
    // Ethernet + IPv4 header claiming TCP, but only 8 bytes of TCP header: parse error in the worker
    let mut p = vec![0u8; 12]; p.extend_from_slice(&[0x08, 0x00]);
    p.extend_from_slice(&[0x45, 0, 0, 28, 0, 1, 0x40, 0, 64, 6, 0, 0, 10, 0, 0, 1, 10, 0, 0, 2]);
    p.extend_from_slice(&[0x9c, 0x40, 0, 80, 0, 0, 0, 1]);
    let r = pool.dispatch(p);
    std::thread::sleep(std::time::Duration::from_millis(300));
    let st = pool.stats();
    println!("D15 dispatch={:?} total_dropped={} per-worker dropped={:?}", r, st.total_dropped, st.workers.iter().map(|w| w.dropped).collect::<Vec<_>>());
}

#[test]
fn d17_eol_and_non_handshake_and_mtu() {
    let mut a = huginn_net::HuginnNet::new(None, 10, Some(cfg(false, true, false))).unwrap();
    // SYN with options mss, eol, 00 00 (padding)
    let p = eth_ipv4_tcp([10, 0, 0, 1], [10, 0, 0, 2], 40000, 80, 0x02, &[2, 4, 5, 0xb4, 0, 0, 0, 0], &[]);
    let r = a.analyze_tcp(&p);
    println!("D17 syn with eol+padding: {:?} mtu={:?}", r.tcp_syn.as_ref().map(|s| s.sig.matching.to_string()), r.tcp_mtu.as_ref().map(|m| m.mtu));
    // plain ACK data segment
    let d = eth_ipv4_tcp([10, 0, 0, 1], [10, 0, 0, 2], 40000, 80, 0x18, &[], b"hello");
    let r = a.analyze_tcp(&d);
    println!("D17b ACK data segment reported as syn_ack: {}", r.tcp_syn_ack.is_some());
    // malformed MSS option (len 1)
    let m = eth_ipv4_tcp([10, 0, 0, 1], [10, 0, 0, 2], 40001, 80, 0x02, &[2, 1, 1, 1], &[]);
    let r = a.analyze_tcp(&m);
    println!("D17c malformed option: {:?}", r.tcp_syn.as_ref().map(|s| s.sig.matching.to_string()));
}

#[test]
fn d18_http_gap_and_growth() {
    let c = [10, 0, 0, 1]; let s = [10, 0, 0, 2];
    let mut a = huginn_net::HuginnNet::new(None, 10, Some(cfg(true, false, false))).unwrap();
    let req = b"GET /a HTTP/1.1\r\nHost: h\r\nX-Pad: 0123456789\r\nUser-Agent: x\r\n\r\n";
    a.analyze_tcp(&seg(c, s, 40000, 80, 0x02, 1000, &[]));
    // segments 1 and 3 only (segment 2 = bytes 20..40 missing)
    let r1 = a.analyze_tcp(&seg(c, s, 40000, 80, 0x18, 1001, &req[..20]));
    let r3 = a.analyze_tcp(&seg(c, s, 40000, 80, 0x18, 1041, &req[40..]));
    println!("D18 gap: reported with a missing middle segment = {} uri={:?}", r1.http_request.is_some() || r3.http_request.is_some(), r3.http_request.as_ref().map(|q| q.sig.matching.to_string()));
}
