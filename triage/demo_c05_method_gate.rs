// one-off triage demo (not part of any registered check): the request-line parser accepts 18 methods (is_valid_method, incl. the CalDAV
// methods REPORT and MKCALENDAR), the gate in front of it (Http1Processor::can_process_request) lists 16.  A well-formed
// `REPORT /cal HTTP/1.1` head is parsed by Http1Parser, but HttpProcessors (what every analyzer calls) reports nothing for it.
// run: cargo test --offline -p huginn-net-http --test demo_method_gate -- --nocapture
use huginn_net_http::http1_parser::Http1Parser;
use huginn_net_http::http_process::HttpProcessors;

#[test]
fn every_method_the_parser_accepts_is_reported_by_the_processors() {
    let processors = HttpProcessors::new();
    let parser = Http1Parser::new();
    let mut missing = Vec::new();
    for m in ["GET", "PATCH", "UNLOCK", "REPORT", "MKCALENDAR"] {
        let head = format!("{m} /cal/user HTTP/1.1\r\nHost: example.org\r\nUser-Agent: demo\r\n\r\n");
        let parsed = parser.parse_request(head.as_bytes()).expect("no parse error");
        assert!(parsed.is_some(), "{m}: the parser itself accepts the head");
        match processors.parse_request(head.as_bytes()) {
            Some(req) => assert_eq!(req.method.as_deref(), Some(m)),
            None => missing.push(m),
        }
    }
    assert!(missing.is_empty(), "well-formed heads not reported by HttpProcessors: {missing:?}");
}
