// One-off triage demonstration for the C06 findings `loader:remainder:*` (not part of any registered check).
// Place as huginn-net-db/tests/triage_loader_remainder.rs and run:
//   cargo test --offline -p huginn-net-db --test triage_loader_remainder -- --nocapture
// Observed on the reference tree (1006ec0):
//   LOADED classes=["unix", "win"] ua_os=[("Linux", None), ("Windows", Some("Win"))]
//   LOADED mtu=[("Ethernet", [1500])]
//   BUNDLED ua_os=[("Linux", None), ("Windows", None), ("iOS", None)]
use huginn_net_db::Database;
use std::str::FromStr;

#[test]
fn tails_of_lines_are_silently_dropped() {
    let text = "classes = unix,win @@@ not a class list\nua_os = Linux,Windows=Win @@@ junk = = ,,\n";
    match Database::from_str(text) {
        Ok(d) => println!("LOADED classes={:?} ua_os={:?}", d.classes, d.ua_os),
        Err(e) => println!("REJECTED {e}"),
    }
    let text = "[mtu] this is not a section header]\nlabel = Ethernet\nsig = 1500\n";
    match Database::from_str(text) {
        Ok(d) => println!("LOADED mtu={:?}", d.mtu),
        Err(e) => println!("REJECTED {e}"),
    }
    let d = Database::load_default().unwrap();
    println!("BUNDLED ua_os={:?}", d.ua_os);
}
