// one-off triage demo (not part of any registered check): an extension whose type matches 0x?a?a but is NOT one of the 16 RFC 8701
// GREASE values (e.g. 0x1a2a) is dropped from the JA4 extension list, because tls-parser files it under `TlsExtension::Grease` and
// `TlsExtensionType::from(&ext)` then yields the constant 0xfafa, which the GREASE filter removes.
// run: cargo test --offline -p huginn-net-tls --test demo_grease_class -- --nocapture
use huginn_net_tls::tls_process::parse_tls_client_hello;

fn client_hello(ext_types: &[u16]) -> Vec<u8> {
    let mut exts = Vec::new();
    for t in ext_types {
        exts.extend_from_slice(&t.to_be_bytes());
        exts.extend_from_slice(&[0, 0]); // empty extension data
    }
    let mut body = Vec::new();
    body.extend_from_slice(&[0x03, 0x03]); // client_version TLS 1.2
    body.extend_from_slice(&[0u8; 32]); // random
    body.push(0); // session id length
    body.extend_from_slice(&[0, 2, 0x13, 0x01]); // one cipher suite
    body.extend_from_slice(&[1, 0]); // compression methods
    body.extend_from_slice(&(exts.len() as u16).to_be_bytes());
    body.extend_from_slice(&exts);
    let mut hs = vec![0x01];
    hs.extend_from_slice(&[0, (body.len() >> 8) as u8, body.len() as u8]);
    hs.extend_from_slice(&body);
    let mut rec = vec![0x16, 0x03, 0x01];
    rec.extend_from_slice(&(hs.len() as u16).to_be_bytes());
    rec.extend_from_slice(&hs);
    rec
}

#[test]
fn non_grease_0x1a2a_is_counted() {
    let sig = parse_tls_client_hello(&client_hello(&[0x7777, 0x1a2a, 0x8888])).unwrap().unwrap();
    println!("extensions recorded: {:04x?}", sig.extensions);
    assert_eq!(sig.extensions, vec![0x7777, 0x1a2a, 0x8888], "0x1a2a is not an RFC 8701 GREASE value and must be part of the fingerprint");
}

#[test]
fn real_grease_0x1a1a_is_dropped() {
    let sig = parse_tls_client_hello(&client_hello(&[0x7777, 0x1a1a, 0x8888])).unwrap().unwrap();
    assert_eq!(sig.extensions, vec![0x7777, 0x8888]);
}
