use huginn_net_http::http2_fingerprint_extractor::Http2FingerprintExtractor;

fn frame(ty: u8, flags: u8, stream: u32, payload: &[u8]) -> Vec<u8> {
    let mut v = vec![(payload.len() >> 16) as u8, (payload.len() >> 8) as u8, payload.len() as u8, ty, flags];
    v.extend_from_slice(&stream.to_be_bytes());
    v.extend_from_slice(payload);
    v
}

#[test]
fn d19_frames_of_earlier_chunks_are_part_of_the_fingerprint() {
    let priority = frame(0x2, 0, 3, &[0, 0, 0, 0, 200]);
    let settings = frame(0x4, 0, 0, &[0, 1, 0, 1, 0, 0, 0, 4, 0, 2, 0, 0]);
    let mut all = priority.clone();
    all.extend_from_slice(&settings);

    let mut one = Http2FingerprintExtractor::new();
    let one_shot = one.add_bytes(&all).unwrap().expect("fingerprint").fingerprint;

    let mut inc = Http2FingerprintExtractor::new();
    assert!(inc.add_bytes(&priority).unwrap().is_none());
    let incremental = inc.add_bytes(&settings).unwrap().expect("fingerprint").fingerprint;
    println!("one-shot    = {one_shot}\nincremental = {incremental}");
    assert_eq!(one_shot, incremental);
}
